#!/bin/bash
# Runs the thorough check of the given properties (development aid): tools/thorough_some.sh C04 C05 ...
cd "$(dirname "$0")/.."
[ -n "$VP_RUN_REPO" ] && export VERIF_REPO="$VP_RUN_REPO"
for id in "$@"; do
  t0=$(date +%s)
  out=$(./check $id --tier thorough 2>&1); rc=$?
  echo "$id rc=$rc $(( $(date +%s) - t0 ))s: $(echo "$out" | grep -E '^(OK|VIOLATION|KNOWN|MACHINERY)' | head -2 | tr '\n' ' ')"
done
