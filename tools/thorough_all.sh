#!/bin/bash
# Runs every thorough check once and prints one line per property (development aid)
cd "$(dirname "$0")/.."
# under `vp run --with-repo` the checks build against the snapshot of /repo, so that /repo may change meanwhile
[ -n "$VP_RUN_REPO" ] && export VERIF_REPO="$VP_RUN_REPO"
for id in $(python3 -c "import checks_config as c; print(' '.join(sorted(c.PROPS)))"); do
  t0=$(date +%s)
  out=$(./check $id --tier thorough 2>&1); rc=$?
  echo "$id rc=$rc $(( $(date +%s) - t0 ))s: $(echo "$out" | grep -E '^(OK|VIOLATION|KNOWN|MACHINERY)' | head -2 | tr '\n' ' ')"
done
