#!/bin/bash
# Runs every quick check at several VERIF_SEED values and prints only what is not OK
# (development aid: flakiness probe). Usage: tools/quick_seeds.sh 7 8 9
cd "$(dirname "$0")/.."
[ -n "$VP_RUN_REPO" ] && export VERIF_REPO="$VP_RUN_REPO"
for s in "$@"; do
  for id in $(python3 -c "import checks_config as c; print(' '.join(sorted(c.PROPS)))"); do
    out=$(VERIF_SEED=$s ./check $id 2>&1); rc=$?
    if [ $rc -ne 0 ]; then echo "seed $s $id rc=$rc: $(echo "$out" | grep -E '^(VIOLATION|KNOWN|MACHINERY|violation)' | head -3 | tr '\n' ' ' | cut -c1-400)"; fi
  done
  echo "seed $s done"
done
