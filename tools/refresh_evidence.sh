#!/bin/bash
# Re-runs every quick check on the current tree and validates MANIFEST/evidence.
# Run before committing: evidence files are rewritten by every run, including
# sensitivity runs against deliberately broken trees.
cd /verif
if ! git -C /repo diff --quiet; then echo "/repo working tree is dirty"; exit 2; fi
fail=0
for id in $(python3 -c "import checks_config as c; print(' '.join(sorted(c.PROPS)))"); do
  out=$(./check $id 2>&1); rc=$?
  echo "$out" | grep -E "^(OK|VIOLATION|KNOWN|MACHINERY)" | head -3
  [ $rc -ne 0 ] && fail=1
done
python3-vt validate.py > /tmp/validate.out 2>&1 || { tail -5 /tmp/validate.out; fail=1; }
tail -1 /tmp/validate.out
exit $fail
