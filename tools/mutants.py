#!/usr/bin/env python3
"""Hand-written mutation suite (sensitivity aid, not a registered check).

  tools/mutants.py [id ...]      run the listed (default: all) mutants

Each mutant is a string replacement in /repo's working tree; the tool applies
it, makes sure the project still builds, optionally runs the repository's own
test suite (--suite), runs the quick checks named for it and restores the tree.
A mutant is KILLED when at least one of its checks exits 1 with a VIOLATION line."""
import json, os, subprocess, sys, time

ENV = dict(os.environ, GOFLAGS="-mod=mod", GOPROXY="off", GOSUMDB="off", GOTOOLCHAIN="local")

M = [
 ("M01-alloc-no-mutex", "plugins/allocators/bitmap/bitmap.go", "\ta.l.Lock()\n\tdefer a.l.Unlock()\n\tif hint.IP.To16() != nil", "\tif hint.IP.To16() != nil", ["C04"]),
 ("M02-nextclear-1", "plugins/allocators/bitmap/bitmap.go", "next, ok := a.bitmap.NextClear(0)", "next, ok := a.bitmap.NextClear(1)", ["C05"]),
 ("M03-v4-last-address", "plugins/allocators/bitmap/bitmap_ipv4.go", "if intIP < a.start || intIP > a.end {", "if intIP < a.start || intIP >= a.end {", ["C07", "C06"]),
 ("M04-range-no-remark", "plugins/range/plugin.go", "\tfor _, v := range p.Recordsv4 {\n\t\tip, err := p.allocator.Allocate(net.IPNet{IP: v.IP})", "\tfor _, v := range map[string]*Record{} {\n\t\tip, err := p.allocator.Allocate(net.IPNet{IP: v.IP})", ["C02", "C03"]),
 ("M05-range-no-save-on-renew", "plugins/range/plugin.go", "\t\t\terr := p.saveIPAddress(req.ClientHWAddr, record)\n\t\t\tif err != nil {\n\t\t\t\tlog.Errorf(\"Could not persist", "\t\t\tvar err error\n\t\t\tif err != nil {\n\t\t\t\tlog.Errorf(\"Could not persist", ["C03"]),
 ("M06-prefix-key-by-duid-type", "plugins/prefix/plugin.go", "\treturn string(d.ToBytes())", "\treturn d.DUIDType().String()", ["C08"]),
 ("M07-prefix-no-noprefixavail", "plugins/prefix/plugin.go", "\t\tif len(iapdResp.Options.Options) == 0 {", "\t\tif false && len(iapdResp.Options.Options) == 0 {", ["C08"]),
 ("M08-v6-reply-to-client-port", "server/handle.go", "\tif _, err := l.WriteTo(resp.ToBytes(), woob, peer); err != nil {\n\t\tlog.Printf(\"MainHandler6", "\tpeer = &net.UDPAddr{IP: peer.IP, Port: 546, Zone: peer.Zone}\n\tif _, err := l.WriteTo(resp.ToBytes(), woob, peer); err != nil {\n\t\tlog.Printf(\"MainHandler6", ["C12"]),
 ("M09-answer-inform", "server/handle.go", "\tcase dhcpv4.MessageTypeRequest:\n\t\ttmp.UpdateOption(dhcpv4.OptMessageType(dhcpv4.MessageTypeAck))", "\tcase dhcpv4.MessageTypeRequest, dhcpv4.MessageTypeInform:\n\t\ttmp.UpdateOption(dhcpv4.OptMessageType(dhcpv4.MessageTypeAck))", ["C11"]),
 ("M10-discover-ack", "server/handle.go", "\tcase dhcpv4.MessageTypeDiscover:\n\t\ttmp.UpdateOption(dhcpv4.OptMessageType(dhcpv4.MessageTypeOffer))", "\tcase dhcpv4.MessageTypeDiscover:\n\t\ttmp.UpdateOption(dhcpv4.OptMessageType(dhcpv4.MessageTypeAck))", ["C11"]),
 ("M11-v4-no-break-on-stop", "server/handle.go", "\t\tresp, stop = handler(req, resp)\n\t\tif stop {\n\t\t\tbreak\n\t\t}", "\t\tresp, stop = handler(req, resp)\n\t\tif stop && resp == nil {\n\t\t\tbreak\n\t\t}", ["C13"]),
 ("M12-giaddr-port-68", "server/handle.go", "peer = &net.UDPAddr{IP: req.GatewayIPAddr, Port: dhcpv4.ServerPort}", "peer = &net.UDPAddr{IP: req.GatewayIPAddr, Port: dhcpv4.ClientPort}", ["C15"]),
 ("M13-ciaddr-broadcast", "server/handle.go", "peer = &net.UDPAddr{IP: req.ClientIPAddr, Port: dhcpv4.ClientPort}", "peer = &net.UDPAddr{IP: net.IPv4bcast, Port: dhcpv4.ClientPort}", ["C15"]),
 ("M14-put-before-parse4", "server/handle.go", "\treq, err := dhcpv4.FromBytes(buf)\n\tbufpool.Put(&buf)", "\tbufpool.Put(&buf)\n\treq, err := dhcpv4.FromBytes(buf)", ["C16"]),
 ("M15-file-skip-bad-line", "plugins/file/plugin.go", "\t\tif len(tokens) != 2 {\n\t\t\treturn nil, fmt.Errorf(\"malformed line, want 2 fields, got %d: %s\", len(tokens), line)\n\t\t}\n\t\thwaddr, err := net.ParseMAC(tokens[0])\n\t\tif err != nil {\n\t\t\treturn nil, fmt.Errorf(\"malformed hardware address: %s\", tokens[0])\n\t\t}\n\t\tipaddr := net.ParseIP(tokens[1])\n\t\tif ipaddr.To4() == nil {", "\t\tif len(tokens) < 2 {\n\t\t\treturn nil, fmt.Errorf(\"malformed line, want 2 fields, got %d: %s\", len(tokens), line)\n\t\t}\n\t\thwaddr, err := net.ParseMAC(tokens[0])\n\t\tif err != nil {\n\t\t\treturn nil, fmt.Errorf(\"malformed hardware address: %s\", tokens[0])\n\t\t}\n\t\tipaddr := net.ParseIP(tokens[1])\n\t\tif ipaddr.To4() == nil {", ["C10"]),
 ("M16-file-swap-partial-on-error", "plugins/file/plugin.go", "\tif err != nil {\n\t\treturn 0, fmt.Errorf(\"failed to load DHCPv%d records: %w\", protver, err)\n\t}", "\tif err != nil && records == nil {\n\t\treturn 0, fmt.Errorf(\"failed to load DHCPv%d records: %w\", protver, err)\n\t}", ["C10"]),
 ("M17-serverid-compare-type-only", "plugins/serverid/plugin.go", "\t\tif !sid.Equal(v6ServerID) {", "\t\tif sid.DUIDType() != v6ServerID.DUIDType() {", ["C14"]),
 ("M18-leasetime-always", "plugins/leasetime/plugin.go", "\tif !resp.Options.Has(dhcpv4.OptionIPAddressLeaseTime) {", "\tif true || !resp.Options.Has(dhcpv4.OptionIPAddressLeaseTime) {", ["C17"]),
 ("M19-config-ignore-port", "config/config.go", "\t\tport, err = strconv.Atoi(portStr)\n\t\tif err != nil {", "\t\t_, err = strconv.Atoi(portStr)\n\t\tif err != nil {", ["C18"]),
 ("M20-offset-overflow-boundary", "plugins/allocators/ipcalc.go", "\tif distanceHigh >= (1 << (128 - uint(prefixLength))) {", "\tif distanceHigh > (1 << (128 - uint(prefixLength))) {", ["C20"]),
 ("M21-prefix-lifetime-2h", "plugins/prefix/plugin.go", "const leaseDuration = 3600 * time.Second", "const leaseDuration = 7200 * time.Second", ["C08"]),
 ("M22-v6-never-pin", "server/handle.go", "\tif peer.IP.IsLinkLocalUnicast() {\n\t\t// LL need", "\tif peer.IP.IsLinkLocalMulticast() {\n\t\t// LL need", ["C12"]),
 ("M23-dns4-unconditional", "plugins/dns/plugin.go", "\tif req.IsOptionRequested(dhcpv4.OptionDomainNameServer) {", "\tif true || req.IsOptionRequested(dhcpv4.OptionDomainNameServer) {", ["C17"]),
 ("M25-config-split-not-fields", "config/config.go", "\t\t\targs = strings.Fields(cast.ToString(v))", "\t\t\targs = strings.Split(strings.TrimSpace(cast.ToString(v)), \" \")", ["C18"]),
 ("M26-l2-broadcast-mac", "server/sendEthernet.go", "\t\tDstMAC:       resp.ClientHWAddr,", "\t\tDstMAC:       net.HardwareAddr{0xff, 0xff, 0xff, 0xff, 0xff, 0xff},", ["C15"]),
 ("M27-nak-from-request-type", "server/handle.go", "\t\t} else if resp.MessageType() == dhcpv4.MessageTypeNak {", "\t\t} else if req.MessageType() == dhcpv4.MessageTypeNak {", ["C15"]),
 ("M28-prefix-no-mutex", "plugins/prefix/plugin.go", "\t\th.Lock()\n\t\tknownLeases := h.Records[recordKey(client)]", "\t\tknownLeases := h.Records[recordKey(client)]", ["C16", "C08"]),
 ("M28b-prefix-no-unlock", "plugins/prefix/plugin.go", "\t\th.Unlock()\n\n\t\tif len(iapdResp", "\n\t\tif len(iapdResp", []),
 ("M29-file6-iaid-zero", "plugins/file/plugin.go", "\t\tIaId: m.Options.OneIANA().IaId,", "\t\tIaId: [4]byte{},", ["C10"]),
 ("M30-autoconfigure-inverted", "plugins/autoconfigure/plugin.go", "!resp.YourIPAddr.IsUnspecified() {", "resp.YourIPAddr.IsUnspecified() {", ["C17"]),
 ("M31-range-lock-removed", "plugins/range/plugin.go", "\tp.Lock()\n\tdefer p.Unlock()\n\trecord, ok", "\trecord, ok", ["C16", "C02"]),
 ("M32-v6-reply-for-decline", "server/handle.go", "\t\tdhcpv6.MessageTypeRebind, dhcpv6.MessageTypeRelease, dhcpv6.MessageTypeInformationRequest:\n\t\tresp, err = dhcpv6.NewReplyFromMessage(msg)", "\t\tdhcpv6.MessageTypeRebind, dhcpv6.MessageTypeRelease, dhcpv6.MessageTypeInformationRequest, dhcpv6.MessageTypeDecline:\n\t\tresp, err = dhcpv6.NewReplyFromMessage(msg)", ["C12", "C01"]),
 ("M33-prefix-hint-loop-givenout", "plugins/prefix/plugin.go", "\t\t\t\tif givenOut.Test(uint(leaseIdx)) {\n\t\t\t\t\tcontinue\n\t\t\t\t}\n", "", ["C09", "C08"]),
 ("M34-range-expiry-not-rounded-up", "plugins/range/plugin.go", "\t\t\texpires: int(time.Now().Add(p.LeaseTime).Unix()),", "\t\t\texpires: int(time.Now().Unix()),", ["C03"]),
 ("M35-v4-bound-ignores-interface", "server/handle.go", "\t\t\tcase l.Interface.Index != 0:\n\t\t\t\twoob = &ipv4.ControlMessage{IfIndex: l.Interface.Index}\n\t\t\tcase oob != nil && oob.IfIndex != 0:", "\t\t\tcase oob != nil && oob.IfIndex != 0:", ["C15"]),
 ("M36-loadplugins-skip-unknown", "plugins/plugin.go", "\t\t\t} else {\n\t\t\t\treturn nil, nil, config.ConfigErrorFromString(\"DHCPv4: unknown plugin `%s`\", pluginConf.Name)\n\t\t\t}", "\t\t\t} else {\n\t\t\t\tlog.Warningf(\"DHCPv4: unknown plugin `%s`\", pluginConf.Name)\n\t\t\t}", ["C13"]),
 ("M37-staticroute-width-bytes", "plugins/staticroute/plugin.go", "\t\troutes = append(routes, route)", "\t\troutes = append(dhcpv4.Routes{route}, routes...)", ["C17"]),
 ("M38-mtu-uint8", "plugins/mtu/plugin.go", "dhcpv4.Uint16(mtu)", "dhcpv4.Uint16(uint8(mtu))", ["C17"]),
 ("M39-config-wrong-family-accepted", "config/config.go", "(ver == protocolV6 && ip4 != nil) || (ver == protocolV4 && ip4 == nil)", "(ver == protocolV4 && ip4 == nil)", ["C18"]),
 ("M41-serve4-one-shared-buffer", "server/handle.go", "func (l *listener4) Serve() error {\n\tlog.Printf(\"Listen %s\", l.LocalAddr())\n\tfor {\n\t\tb := *bufpool.Get().(*[]byte)\n", "func (l *listener4) Serve() error {\n\tlog.Printf(\"Listen %s\", l.LocalAddr())\n\tb := *bufpool.Get().(*[]byte)\n\tfor {\n", ["C16"]),
 ("M42-serve6-no-reslice", "server/handle.go", "func (l *listener6) Serve() error {\n\tlog.Printf(\"Listen %s\", l.LocalAddr())\n\tfor {\n\t\tb := *bufpool.Get().(*[]byte)\n\t\tb = b[:MaxDatagram] //Reslice to max capacity in case the buffer in pool was resliced smaller\n", "func (l *listener6) Serve() error {\n\tlog.Printf(\"Listen %s\", l.LocalAddr())\n\tfor {\n\t\tb := *bufpool.Get().(*[]byte)\n", ["C16"]),
 ("M43-start-second-listener-no-chain", "server/serve.go", "\t\t\tl4.handlers = handlers4\n", "\t\t\tif len(srv.listeners) == 0 || config.Server6 != nil && len(srv.listeners) == len(config.Server6.Addresses) {\n\t\t\t\tl4.handlers = handlers4\n\t\t\t}\n", ["C13"]),
 ("M40-addprefixes-carry-lost", "plugins/allocators/ipcalc.go", "\tiph, carry = bits.Add64(offh, iph, carry)", "\tiph, carry = bits.Add64(offh, iph, 0)", ["C20", "C05"]),
]

def sh(cmd, cwd=None, timeout=900):
    p = subprocess.run(cmd, cwd=cwd, env=ENV, stdout=subprocess.PIPE, stderr=subprocess.STDOUT, text=True, timeout=timeout)
    return p.returncode, p.stdout

def main():
    args = [a for a in sys.argv[1:] if not a.startswith("--")]
    suite = "--suite" in sys.argv
    rc, out = sh(["git", "-C", "/repo", "status", "--porcelain"])
    if out.strip():
        print("/repo working tree is dirty:\n" + out); sys.exit(2)
    results = []
    for mid, path, old, new, props in M:
        if args and not any(mid.startswith(a) for a in args):
            continue
        full = os.path.join("/repo", path)
        src = open(full).read()
        if src.count(old) != 1:
            print("%-36s PATTERN-MISMATCH (%d matches)" % (mid, src.count(old))); results.append((mid, "mismatch")); continue
        try:
            open(full, "w").write(src.replace(old, new))
            rc, out = sh(["go", "build", "./..."], cwd="/repo")
            if rc != 0:
                print("%-36s DOES-NOT-BUILD\n%s" % (mid, out[-600:])); results.append((mid, "nobuild")); continue
            st = ""
            if suite:
                rc, out = sh(["go", "test", "-vet=off", "-count=1", "./..."], cwd="/repo")
                st = " suite=%s" % ("pass" if rc == 0 else "FAIL")
            verdicts = []
            for p in props:
                t0 = time.time()
                rc, out = sh(["./check", p], cwd="/verif", timeout=1800)
                v = "KILLED" if rc == 1 and "VIOLATION property=" in out else ("survived" if rc == 0 else "rc=%d" % rc)
                sig = ""
                for line in out.splitlines():
                    if line.startswith("violation:"):
                        sig = line[10:90]; break
                verdicts.append("%s:%s(%.0fs)%s" % (p, v, time.time() - t0, " [" + sig.strip() + "]" if sig else ""))
            print("%-36s%s %s" % (mid, st, "  ".join(verdicts)), flush=True)
            results.append((mid, verdicts))
        finally:
            sh(["git", "-C", "/repo", "checkout", "--", "."])
    subprocess.run("rm -f /verif/replays/C*.json /verif/replays/C*.txt; git -C /verif checkout -- evidence 2>/dev/null", shell=True)

if __name__ == "__main__":
    main()
