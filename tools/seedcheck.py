#!/usr/bin/env python3
"""Confirms a seeded change produced by an independent sub-agent and runs the
registered checks against it.

  tools/seedcheck.py <worktree-name> <PROPERTY> [more properties to run...]

<worktree-name> is the directory under /tmp/wt holding _seed/{patch.diff,demo/,meta.json}.
Steps (all in /repo's working tree, restored afterwards): patch applies; build+vet;
unedited suite passes; demo fails with the patch and passes without; then
./check <PROPERTY> --tier quick for each listed property. Results are stored in
/verif/seeded/<name>/meta.json under "confirmed"."""
import json, os, re, shutil, subprocess, sys, time, glob

ENV = dict(os.environ, GOFLAGS="-mod=mod", GOPROXY="off", GOSUMDB="off", GOTOOLCHAIN="local")

def sh(cmd, cwd="/repo", timeout=1800, shell=False):
    p = subprocess.run(cmd, cwd=cwd, env=ENV, stdout=subprocess.PIPE, stderr=subprocess.STDOUT, text=True, timeout=timeout, shell=shell)
    return p.returncode, p.stdout

def main():
    name, props = sys.argv[1], sys.argv[2:]
    seed = "/tmp/wt/%s/_seed" % name
    dst = "/verif/seeded/%s" % name
    rc, out = sh(["git", "status", "--porcelain"])
    if out.strip():
        print("/repo dirty"); sys.exit(2)
    os.makedirs(dst, exist_ok=True)
    shutil.copy(seed + "/patch.diff", dst + "/patch.diff")
    if os.path.isdir(dst + "/demo"):
        shutil.rmtree(dst + "/demo")
    shutil.copytree(seed + "/demo", dst + "/demo")
    meta = {}
    try:
        meta = json.load(open(seed + "/meta.json"))
    except Exception as e:
        meta = {"note": "agent meta.json unreadable: %s" % e}
    conf = {"at_commit": sh(["git", "rev-parse", "--short", "HEAD"])[1].strip()}
    run_txt = open(dst + "/demo/RUN.txt").read() if os.path.exists(dst + "/demo/RUN.txt") else ""
    demo_files = [f for f in glob.glob(dst + "/demo/**", recursive=True) if os.path.isfile(f) and not f.endswith("RUN.txt")]
    placed = []
    try:
        rc, out = sh(["git", "apply", "--check", dst + "/patch.diff"])
        conf["patch_applies"] = rc == 0
        if rc != 0:
            print("PATCH DOES NOT APPLY\n" + out); return finish(dst, meta, conf)
        sh(["git", "apply", dst + "/patch.diff"])
        conf["files_changed"] = sh(["git", "diff", "--stat"])[1].strip().splitlines()
        rc, out = sh("go build ./... && go vet ./...", shell=True)
        conf["build_vet"] = "pass" if rc == 0 else "FAIL"
        rc, out = sh(["go", "test", "-vet=off", "-count=1", "./..."])
        conf["suite_with_change"] = "pass" if rc == 0 else "FAIL"
        if rc != 0:
            print(out[-1500:])
        # place demo files
        for f in demo_files:
            base = os.path.basename(f)
            m = re.search(r"([\w./-]*/)" + re.escape(base), run_txt)
            target_dir = None
            if m:
                cand = m.group(1).strip()
                cand = cand.replace("/tmp/wt/%s/" % name, "")
                if not cand.startswith("/") and "_seed" not in cand and os.path.isdir(os.path.join("/repo", cand)):
                    target_dir = cand
            if target_dir is None:
                # package clause tells where it belongs
                pk = re.search(r"^package (\w+)", open(f).read(), re.M)
                for d in [x[0] for x in os.walk("/repo") if "/.git" not in x[0]]:
                    if pk and any(re.search(r"^package %s\b" % re.escape(pk.group(1).replace("_test", "")), open(os.path.join(d, g)).read(), re.M) for g in os.listdir(d) if g.endswith(".go") and not g.endswith("_test.go")):
                        target_dir = os.path.relpath(d, "/repo"); break
            if target_dir is None:
                print("cannot place demo file", f); continue
            t = os.path.join("/repo", target_dir, base)
            shutil.copy(f, t); placed.append(t)
        cmd = None
        lines = run_txt.splitlines()
        # prefer a line that is a command on its own
        pref = [l for l in lines if re.match(r"^\s*(\$ |\d+\. )?`?go (test|run) ", l)]
        for line in (pref or lines):
            if "go test" in line or "go run" in line:
                cmd = line.strip().lstrip("$ ").strip("`").strip()
                cmd = re.sub(r"^.*?(go (test|run))", r"\1", cmd)
                cmd = cmd.split("   ")[0]
                break
        conf["demo_cmd"] = cmd
        conf["demo_files"] = [os.path.relpath(p, "/repo") for p in placed]
        if cmd:
            rc1, out1 = sh(cmd, shell=True, timeout=900)
            conf["demo_with_change"] = "fail" if rc1 != 0 else "PASS(unexpected)"
            sh(["git", "apply", "-R", dst + "/patch.diff"])
            rc2, out2 = sh(cmd, shell=True, timeout=900)
            conf["demo_without_change"] = "pass" if rc2 == 0 else "FAIL(unexpected)"
            if rc2 != 0:
                print(out2[-1500:])
            sh(["git", "apply", dst + "/patch.diff"])
        for p in placed:
            os.remove(p)
        placed = []
        conf["checks"] = {}
        for pr in props:
            t0 = time.time()
            rc, out = sh(["./check", pr, "--tier", "quick"], cwd="/verif", timeout=3000)
            verdict = "DETECTED" if rc == 1 and "VIOLATION property=" in out else ("missed" if rc == 0 else "rc=%d" % rc)
            sig = [l for l in out.splitlines() if l.startswith("violation:")][:1]
            conf["checks"][pr] = {"tier": "quick", "verdict": verdict, "seconds": round(time.time() - t0, 1), "first_violation": (sig[0][:300] if sig else "")}
            print("%s %s: %s %s" % (name, pr, verdict, sig[0][:160] if sig else ""))
    finally:
        for p in placed:
            if os.path.exists(p):
                os.remove(p)
        sh(["git", "checkout", "--", "."])
        sh(["git", "clean", "-fdq", "--", "."])
        subprocess.run("rm -f /verif/replays/C*.json /verif/replays/C*.txt; git -C /verif checkout -- evidence 2>/dev/null", shell=True)
    finish(dst, meta, conf)

def finish(dst, meta, conf):
    out = {"from_agent": meta, "confirmed": conf}
    json.dump(out, open(dst + "/meta.json", "w"), indent=1)
    print(json.dumps({k: v for k, v in conf.items() if k not in ("files_changed",)}, indent=1)[:1200])

if __name__ == "__main__":
    main()
