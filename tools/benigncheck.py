#!/usr/bin/env python3
"""Runs every quick check against a behaviour-preserving change produced by an
independent sub-agent (false-alarm test). tools/benigncheck.py <worktree-name>"""
import json, os, shutil, subprocess, sys, time
ENV = dict(os.environ, GOFLAGS="-mod=mod", GOPROXY="off", GOSUMDB="off", GOTOOLCHAIN="local")
def sh(cmd, cwd="/repo", timeout=3000, shell=False):
    p = subprocess.run(cmd, cwd=cwd, env=ENV, stdout=subprocess.PIPE, stderr=subprocess.STDOUT, text=True, timeout=timeout, shell=shell)
    return p.returncode, p.stdout
name = sys.argv[1]
only = sys.argv[2:]
seed = "/tmp/wt/%s/_seed" % name
dst = "/verif/seeded/benign/%s" % name
os.makedirs(dst, exist_ok=True)
if os.path.exists(seed + "/patch.diff"):
    shutil.copy(seed + "/patch.diff", dst + "/patch.diff")
    try:
        meta = json.load(open(seed + "/meta.json"))
    except Exception as e:
        meta = {"note": "unreadable: %s" % e}
else:
    meta = json.load(open(dst + "/meta.json")).get("from_agent", {})
rc, out = sh(["git", "status", "--porcelain"])
if out.strip():
    print("/repo dirty"); sys.exit(2)
conf = {"at_commit": sh(["git", "rev-parse", "--short", "HEAD"])[1].strip(), "checks": {}}
try:
    rc, out = sh(["git", "apply", dst + "/patch.diff"])
    conf["patch_applies"] = rc == 0
    if rc != 0:
        print(name, "PATCH DOES NOT APPLY", out[:300])
    else:
        rc, out = sh("go build ./... && go vet ./... && go build -tags verif ./...", shell=True)
        conf["build_vet"] = "pass" if rc == 0 else "FAIL"
        rc, out = sh(["go", "test", "-vet=off", "-count=1", "./..."])
        conf["suite_with_change"] = "pass" if rc == 0 else "FAIL"
        sys.path.insert(0, "/verif")
        from checks_config import PROPS
        for pid in sorted(PROPS):
            if only and pid not in only:
                continue
            rc, out = sh(["./check", pid], cwd="/verif")
            verdict = "quiet" if rc == 0 else ("ALARM" if rc == 1 else "rc=%d" % rc)
            v = [l for l in out.splitlines() if l.startswith("violation:")][:1]
            conf["checks"][pid] = verdict + ((" " + v[0][:260]) if v else "")
            if rc != 0:
                print("%s %s: %s %s" % (name, pid, verdict, v[0][:300] if v else out[-300:]))
finally:
    sh(["git", "checkout", "--", "."])
    sh(["git", "clean", "-fdq", "--", "."])
    subprocess.run("rm -f /verif/replays/C*.json /verif/replays/C*.txt; git -C /verif checkout -- evidence 2>/dev/null", shell=True)
json.dump({"from_agent": meta, "confirmed": conf}, open(dst + "/meta.json", "w"), indent=1)
alarms = [k for k, v in conf["checks"].items() if not v.startswith("quiet")]
print("%s: build=%s suite=%s alarms=%s" % (name, conf.get("build_vet"), conf.get("suite_with_change"), alarms))
