#!/bin/bash
# Re-runs, for every committed seeded change (seeded/C??[a-z]/patch.diff, not seeded/benign),
# the quick check of the property it was written against and prints the changes that are NOT
# reported (exit code other than 1). Meant for
#   vp run --with-repo -- tools/seeds_all.sh [name patterns...]
# where it works on the snapshot of /verif and on $VP_RUN_REPO.
cd "$(dirname "$0")/.."
[ -n "$VP_RUN_REPO" ] || { echo "needs VP_RUN_REPO (use vp run --with-repo)"; exit 2; }
export VERIF_REPO="$VP_RUN_REPO"
export GOFLAGS=-mod=mod GOPROXY=off GOSUMDB=off GOTOOLCHAIN=local
n=0; missed=0
for d in seeded/C[0-9][0-9][a-z]; do
  name=$(basename $d); prop=${name:0:3}
  if [ $# -gt 0 ]; then m=0; for pat in "$@"; do case "$name" in $pat) m=1;; esac; done; [ $m = 1 ] || continue; fi
  git -C "$VP_RUN_REPO" checkout -q -- . ; git -C "$VP_RUN_REPO" clean -fdq
  git -C "$VP_RUN_REPO" apply "$PWD/$d/patch.diff" || { echo "$name: patch does not apply"; continue; }
  out=$(./check $prop 2>&1); rc=$?
  n=$((n+1))
  if [ $rc -eq 1 ]; then echo "$name: reported ($(echo "$out" | grep -E '^violation' | head -1 | cut -c1-160))"
  else missed=$((missed+1)); echo "$name: NOT REPORTED by $prop (rc=$rc)"; fi
done
git -C "$VP_RUN_REPO" checkout -q -- . ; git -C "$VP_RUN_REPO" clean -fdq
echo "ALLDONE: $n changes, $missed not reported by their own property's check"
