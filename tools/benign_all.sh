#!/bin/bash
# Re-runs every quick check against every committed behaviour-preserving change
# (seeded/benign/*/patch.diff) and prints what is not quiet. Meant for
#   vp run --with-repo -- tools/benign_all.sh
# where it works on the snapshot of /verif and on $VP_RUN_REPO, so that /repo and
# /verif stay free meanwhile. Without VP_RUN_REPO it refuses to run.
cd "$(dirname "$0")/.."
[ -n "$VP_RUN_REPO" ] || { echo "needs VP_RUN_REPO (use vp run --with-repo)"; exit 2; }
export VERIF_REPO="$VP_RUN_REPO"
export GOFLAGS=-mod=mod GOPROXY=off GOSUMDB=off GOTOOLCHAIN=local
ids=${BENIGN_IDS:-$(python3 -c "import checks_config as c; print(' '.join(sorted(c.PROPS)))")}  # BENIGN_IDS="C12 C13" restricts the checks run
for d in seeded/benign/C*; do
  name=$(basename $d)
  # optional arguments: only the changes whose name matches one of the given shell patterns
  if [ $# -gt 0 ]; then m=0; for pat in "$@"; do case "$name" in $pat) m=1;; esac; done; [ $m = 1 ] || continue; fi
  git -C "$VP_RUN_REPO" checkout -q -- . ; git -C "$VP_RUN_REPO" clean -fdq
  git -C "$VP_RUN_REPO" apply "$PWD/$d/patch.diff" || { echo "$name: patch does not apply"; continue; }
  (cd "$VP_RUN_REPO" && go build ./... && go build -tags verif ./...) >/dev/null 2>&1 || { echo "$name: does not build"; continue; }
  alarms=""
  for id in $ids; do
    out=$(./check $id 2>&1); rc=$?
    if [ $rc -ne 0 ]; then alarms="$alarms $id(rc=$rc)"; echo "$name $id rc=$rc: $(echo "$out" | grep -E '^(VIOLATION|MACHINERY|violation)' | head -2 | tr '\n' ' ' | cut -c1-400)"; fi
  done
  echo "$name: alarms=[$alarms ]"
done
git -C "$VP_RUN_REPO" checkout -q -- . ; git -C "$VP_RUN_REPO" clean -fdq
echo ALLDONE
