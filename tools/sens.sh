#!/bin/bash
# Sensitivity aid: apply a patch to /repo's working tree, run the quick checks
# named after it, and restore the tree. Usage: tools/sens.sh [-R] <patch> <ID>...
# -R applies the patch in reverse (e.g. the diff of a fix commit).
rev=""
if [ "$1" = "-R" ]; then rev="-R"; shift; fi
patch="$1"; shift
if ! git -C /repo diff --quiet; then echo "/repo working tree is dirty"; exit 2; fi
git -C /repo apply $rev "$patch" || { echo "patch does not apply"; exit 2; }
for id in "$@"; do
  out=$(cd /verif && VERIF_SEED=${VERIF_SEED:-1} ./check "$id" 2>&1)
  rc=$?
  echo "== $id rc=$rc: $(echo "$out" | grep -E '^(VIOLATION|OK|MACHINERY|KNOWN)' | head -3 | tr '\n' ' ')"
  echo "$out" | grep -E '^violation:' | head -2 | cut -c1-400
done
git -C /repo checkout -- . && git -C /repo clean -fdq -- .
git -C /verif checkout -- evidence 2>/dev/null; rm -f /verif/replays/C*.json /verif/replays/C*.txt
