// Package gen holds the wire-level builders and generators shared by the
// engines. Requests are always built as bytes by this package (independently of
// the codec library) and then parsed by the library, so that handlers see what
// they would see on the wire (e.g. an IAPrefix of length 0 is a nil prefix).
package gen

import (
	"encoding/binary"
	"encoding/hex"
	"net"
)

// ---- DHCPv6 ---------------------------------------------------------------

// DHCPv6 option codes used by the builders
const (
	O6ClientID     = 1
	O6ServerID     = 2
	O6IANA         = 3
	O6IATA         = 4
	O6IAAddr       = 5
	O6ORO          = 6
	O6ElapsedTime  = 8
	O6RelayMsg     = 9
	O6StatusCode   = 13
	O6RapidCommit  = 14
	O6InterfaceID  = 18
	O6DNS          = 23
	O6DomainList   = 24
	O6IAPD         = 25
	O6IAPrefix     = 26
	O6RemoteID     = 37
	O6BootfileURL  = 59
	O6BootfileParm = 60
	O6ClientLLAddr = 79
)

// DHCPv6 message types
const (
	M6Solicit     = 1
	M6Advertise   = 2
	M6Request     = 3
	M6Confirm     = 4
	M6Renew       = 5
	M6Rebind      = 6
	M6Reply       = 7
	M6Release     = 8
	M6Decline     = 9
	M6Reconfigure = 10
	M6InfoRequest = 11
	M6RelayForw   = 12
	M6RelayRepl   = 13
)

// Opt6 encodes one DHCPv6 option
func Opt6(code uint16, data []byte) []byte {
	b := make([]byte, 4, 4+len(data))
	binary.BigEndian.PutUint16(b[0:], code)
	binary.BigEndian.PutUint16(b[2:], uint16(len(data)))
	return append(b, data...)
}

func cat(parts ...[]byte) []byte {
	var r []byte
	for _, p := range parts {
		r = append(r, p...)
	}
	return r
}

// Msg6 encodes a client/server message
func Msg6(typ uint8, xid uint32, opts ...[]byte) []byte {
	b := []byte{typ, byte(xid >> 16), byte(xid >> 8), byte(xid)}
	return append(b, cat(opts...)...)
}

// Relay6 encodes a relay message around inner (which becomes the Relay-Message
// option unless omitRelayMsg); extra options go before the relay message
func Relay6(typ uint8, hop uint8, link, peer net.IP, inner []byte, omitRelayMsg bool, extra ...[]byte) []byte {
	b := []byte{typ, hop}
	b = append(b, to16(link)...)
	b = append(b, to16(peer)...)
	b = append(b, cat(extra...)...)
	if !omitRelayMsg {
		b = append(b, Opt6(O6RelayMsg, inner)...)
	}
	return b
}

func to16(ip net.IP) []byte {
	r := make([]byte, 16)
	if x := ip.To16(); x != nil {
		copy(r, x)
	}
	return r
}

func u32(v uint32) []byte {
	b := make([]byte, 4)
	binary.BigEndian.PutUint32(b, v)
	return b
}

func u16(v uint16) []byte {
	b := make([]byte, 2)
	binary.BigEndian.PutUint16(b, v)
	return b
}

// IAPD6 encodes an IA_PD option
func IAPD6(iaid [4]byte, t1, t2 uint32, sub ...[]byte) []byte {
	return Opt6(O6IAPD, cat(iaid[:], u32(t1), u32(t2), cat(sub...)))
}

// IAPrefix6 encodes an IAPrefix option exactly as given (length 0 and any
// address bits are representable)
func IAPrefix6(pref, valid uint32, plen uint8, ip net.IP, sub ...[]byte) []byte {
	return Opt6(O6IAPrefix, cat(u32(pref), u32(valid), []byte{plen}, to16(ip), cat(sub...)))
}

// IANA6 encodes an IA_NA option
func IANA6(iaid [4]byte, t1, t2 uint32, sub ...[]byte) []byte {
	return Opt6(O6IANA, cat(iaid[:], u32(t1), u32(t2), cat(sub...)))
}

// IAAddr6 encodes an IA Address option
func IAAddr6(ip net.IP, pref, valid uint32) []byte {
	return Opt6(O6IAAddr, cat(to16(ip), u32(pref), u32(valid)))
}

// ORO6 encodes an option request option
func ORO6(codes ...uint16) []byte {
	var d []byte
	for _, c := range codes {
		d = append(d, u16(c)...)
	}
	return Opt6(O6ORO, d)
}

// DUID builders (raw bytes)
func DUIDLLT(hwtype uint16, t uint32, ll []byte) []byte {
	return cat(u16(1), u16(hwtype), u32(t), ll)
}
func DUIDEN(en uint32, id []byte) []byte { return cat(u16(2), u32(en), id) }
func DUIDLL(hwtype uint16, ll []byte) []byte {
	return cat(u16(3), u16(hwtype), ll)
}
func DUIDUUID(uuid [16]byte) []byte { return cat(u16(4), uuid[:]) }
func DUIDOpaque(typ uint16, data []byte) []byte {
	return cat(u16(typ), data)
}

// ---- DHCPv4 ---------------------------------------------------------------

// Pkt4 is a DHCPv4 packet as plain data
type Pkt4 struct {
	Op     uint8  `json:"op"`
	HType  uint8  `json:"htype"`
	HLen   uint8  `json:"hlen"`
	Hops   uint8  `json:"hops,omitempty"`
	Xid    uint32 `json:"xid"`
	Secs   uint16 `json:"secs,omitempty"`
	Flags  uint16 `json:"flags,omitempty"`
	CIAddr string `json:"ciaddr,omitempty"`
	YIAddr string `json:"yiaddr,omitempty"`
	SIAddr string `json:"siaddr,omitempty"`
	GIAddr string `json:"giaddr,omitempty"`
	// CHAddr: hex, up to 16 bytes (padded with zeros on the wire)
	CHAddr string `json:"chaddr,omitempty"`
	SName  string `json:"sname,omitempty"`
	File   string `json:"file,omitempty"`
	// NoCookie drops the magic cookie; Opts are (code, hex data) in order
	BadCookie bool   `json:"badcookie,omitempty"`
	Opts      []Opt4 `json:"opts,omitempty"`
	NoEnd     bool   `json:"noend,omitempty"`
}

// Opt4 is one DHCPv4 option as plain data
type Opt4 struct {
	Code uint8  `json:"code"`
	Hex  string `json:"hex"`
}

func ip4(s string) []byte {
	r := make([]byte, 4)
	if s == "" {
		return r
	}
	if ip := net.ParseIP(s).To4(); ip != nil {
		copy(r, ip)
	}
	return r
}

// Bytes serialises the packet
func (p Pkt4) Bytes() []byte {
	b := make([]byte, 0, 300)
	b = append(b, p.Op, p.HType, p.HLen, p.Hops)
	b = append(b, u32(p.Xid)...)
	b = append(b, u16(p.Secs)...)
	b = append(b, u16(p.Flags)...)
	b = append(b, ip4(p.CIAddr)...)
	b = append(b, ip4(p.YIAddr)...)
	b = append(b, ip4(p.SIAddr)...)
	b = append(b, ip4(p.GIAddr)...)
	ch := make([]byte, 16)
	if x, err := hex.DecodeString(p.CHAddr); err == nil {
		copy(ch, x)
	}
	b = append(b, ch...)
	sn := make([]byte, 64)
	copy(sn, p.SName)
	b = append(b, sn...)
	fl := make([]byte, 128)
	copy(fl, p.File)
	b = append(b, fl...)
	if p.BadCookie {
		b = append(b, 99, 130, 83, 98)
	} else {
		b = append(b, 99, 130, 83, 99)
	}
	for _, o := range p.Opts {
		d, _ := hex.DecodeString(o.Hex)
		if o.Code == 0 {
			b = append(b, 0)
			continue
		}
		for len(d) > 255 {
			b = append(b, o.Code, 255)
			b = append(b, d[:255]...)
			d = d[255:]
		}
		b = append(b, o.Code, byte(len(d)))
		b = append(b, d...)
	}
	if !p.NoEnd {
		b = append(b, 255)
	}
	return b
}

// H is a short-hand for hex encoding
func H(b []byte) string { return hex.EncodeToString(b) }

// UnH decodes hex (empty on error)
func UnH(s string) []byte {
	b, _ := hex.DecodeString(s)
	return b
}
