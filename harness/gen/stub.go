package gen

import (
	"github.com/insomniacslk/dhcp/dhcpv4"
	"github.com/insomniacslk/dhcp/dhcpv6"
)

// Stub6 parses a datagram and builds the response stub exactly as the
// server's HandleMsg6 does before it runs the plugin chain. ok is false when
// the server would drop the datagram before reaching the chain.
func Stub6(wire []byte) (req dhcpv6.DHCPv6, inner *dhcpv6.Message, resp dhcpv6.DHCPv6, ok bool) {
	d, err := dhcpv6.FromBytes(wire)
	if err != nil {
		return nil, nil, nil, false
	}
	msg, err := d.GetInnerMessage()
	if err != nil {
		return d, nil, nil, false
	}
	var r *dhcpv6.Message
	switch msg.Type() {
	case dhcpv6.MessageTypeSolicit:
		if msg.GetOneOption(dhcpv6.OptionRapidCommit) != nil {
			r, err = dhcpv6.NewReplyFromMessage(msg)
		} else {
			r, err = dhcpv6.NewAdvertiseFromSolicit(msg)
		}
	case dhcpv6.MessageTypeRequest, dhcpv6.MessageTypeConfirm, dhcpv6.MessageTypeRenew,
		dhcpv6.MessageTypeRebind, dhcpv6.MessageTypeRelease, dhcpv6.MessageTypeInformationRequest:
		r, err = dhcpv6.NewReplyFromMessage(msg)
	default:
		return d, msg, nil, false
	}
	if err != nil {
		return d, msg, nil, false
	}
	return d, msg, r, true
}

// Stub4 parses a datagram and builds the response stub exactly as the
// server's HandleMsg4 does before it runs the plugin chain.
func Stub4(wire []byte) (req, resp *dhcpv4.DHCPv4, ok bool) {
	req, err := dhcpv4.FromBytes(wire)
	if err != nil {
		return nil, nil, false
	}
	if req.OpCode != dhcpv4.OpcodeBootRequest {
		return req, nil, false
	}
	tmp, err := dhcpv4.NewReplyFromRequest(req)
	if err != nil {
		return req, nil, false
	}
	switch req.MessageType() {
	case dhcpv4.MessageTypeDiscover:
		tmp.UpdateOption(dhcpv4.OptMessageType(dhcpv4.MessageTypeOffer))
	case dhcpv4.MessageTypeRequest:
		tmp.UpdateOption(dhcpv4.OptMessageType(dhcpv4.MessageTypeAck))
	default:
		return req, nil, false
	}
	return req, tmp, true
}
