package gen

// Independent, minimal readers of the two wire formats, used by oracles that
// must not depend on the codec library's own interpretation.

// TLV4 is one DHCPv4 option occurrence as found on the wire
type TLV4 struct {
	Code uint8
	Data []byte
}

// Options4 walks the options area of a DHCPv4 datagram (after the 240-byte
// header) and returns every TLV in order; ok is false when the packet is too
// short, has a bad cookie or a truncated option
func Options4(pkt []byte) (tlvs []TLV4, ok bool) {
	if len(pkt) < 240 || pkt[236] != 99 || pkt[237] != 130 || pkt[238] != 83 || pkt[239] != 99 {
		return nil, false
	}
	b := pkt[240:]
	for len(b) > 0 {
		c := b[0]
		if c == 0 {
			b = b[1:]
			continue
		}
		if c == 255 {
			return tlvs, true
		}
		if len(b) < 2 || len(b) < 2+int(b[1]) {
			return tlvs, false
		}
		tlvs = append(tlvs, TLV4{c, append([]byte(nil), b[2:2+int(b[1])]...)})
		b = b[2+int(b[1]):]
	}
	return tlvs, true
}

// Merged4 concatenates the occurrences of each code (RFC 3396) and counts them
func Merged4(tlvs []TLV4) (data map[uint8][]byte, count map[uint8]int) {
	data, count = map[uint8][]byte{}, map[uint8]int{}
	for _, t := range tlvs {
		data[t.Code] = append(data[t.Code], t.Data...)
		count[t.Code]++
	}
	return
}

// TLV6 is one DHCPv6 option occurrence
type TLV6 struct {
	Code uint16
	Data []byte
}

// Options6 walks a DHCPv6 option area
func Options6(b []byte) (tlvs []TLV6, ok bool) {
	for len(b) > 0 {
		if len(b) < 4 {
			return tlvs, false
		}
		code := uint16(b[0])<<8 | uint16(b[1])
		l := int(b[2])<<8 | int(b[3])
		if 4+l > len(b) {
			return tlvs, false
		}
		tlvs = append(tlvs, TLV6{code, append([]byte(nil), b[4:4+l]...)})
		b = b[4+l:]
	}
	return tlvs, true
}

// DecodeNames decodes an RFC 1035 sequence of domain names (with compression
// pointers, as RFC 3397 allows); ok is false on malformed input
func DecodeNames(b []byte) (names []string, ok bool) {
	pos := 0
	for pos < len(b) {
		var labels []string
		p := pos
		jumped := false
		hops := 0
		for {
			if p >= len(b) {
				return nil, false
			}
			l := int(b[p])
			switch {
			case l == 0:
				p++
				if !jumped {
					pos = p
				}
				goto done
			case l&0xc0 == 0xc0:
				if p+1 >= len(b) {
					return nil, false
				}
				if !jumped {
					pos = p + 2
				}
				p = (l&0x3f)<<8 | int(b[p+1])
				jumped = true
				hops++
				if hops > 16 {
					return nil, false
				}
			case l&0xc0 != 0:
				return nil, false
			default:
				if p+1+l > len(b) {
					return nil, false
				}
				labels = append(labels, string(b[p+1:p+1+l]))
				p += 1 + l
			}
		}
	done:
		name := ""
		for i, l := range labels {
			if i > 0 {
				name += "."
			}
			name += l
		}
		names = append(names, name)
	}
	return names, true
}
