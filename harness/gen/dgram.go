package gen

import (
	"encoding/binary"
	"net"

	"pgregory.net/rapid"
)

// Chance is true with probability about num/den. rapid's integer generators
// favour small values, so "IntRange(0, n) == 0" fires far more often than
// 1/(n+1); hashing a full-width draw gives an even spread, and the all-zero
// draw a shrinker ends at means "false".
func Chance(t *rapid.T, label string, num, den uint32) bool {
	v := rapid.Uint32().Draw(t, label)
	h := (v * 2654435761) >> 8
	return v != 0 && h%den < num
}

// ---- generators of structured datagrams (bytes are what a case stores) ------

// Clients4 is a pool of hardware addresses (hex) of various lengths
var Clients4 = []string{"020000000001", "020000000002", "001122334455", "0200000000aa0102", "0205", "", "02000000000102030405060708090a0b", "1e0510"}

// ClientDUIDs is a pool of raw client DUIDs
var ClientDUIDs = [][]byte{
	DUIDLL(1, []byte{0x02, 0, 0, 0, 0, 1}),
	DUIDLLT(1, 0x2a2a2a2a, []byte{0x02, 0, 0, 0, 0, 2}),
	DUIDLL(1, []byte{0x00, 0x11, 0x22, 0x33, 0x44, 0x55}),
	DUIDEN(32473, []byte{9, 8, 7}),
	DUIDUUID([16]byte{1, 2, 3, 4, 5, 6, 7, 8, 9, 10, 11, 12, 13, 14, 15, 16}),
	DUIDOpaque(0x00ff, []byte{0xca, 0xfe}),
	DUIDLL(1, nil),
}

// OwnDUID6 is the server DUID the v6 chains are configured with (LL 00:de:ad:be:ef:00)
var OwnDUID6 = DUIDLL(1, []byte{0x00, 0xde, 0xad, 0xbe, 0xef, 0x00})

func randIP4(t *rapid.T, label string) string {
	switch rapid.IntRange(0, 5).Draw(t, label+"-kind") {
	case 0:
		return ""
	case 1:
		return "255.255.255.255"
	case 2:
		return net.IPv4(169, 254, rapid.Byte().Draw(t, label+"c"), rapid.Byte().Draw(t, label+"d")).String()
	case 3:
		return "10.10.10.1"
	default:
		return net.IPv4(byte(rapid.IntRange(1, 223).Draw(t, label+"a")), rapid.Byte().Draw(t, label+"b"), rapid.Byte().Draw(t, label+"c"), rapid.Byte().Draw(t, label+"d")).String()
	}
}

// GenPkt4 draws a structured DHCPv4 packet
func GenPkt4(t *rapid.T) Pkt4 {
	var p Pkt4
	p.Op = rapid.SampledFrom([]uint8{1, 1, 1, 1, 1, 1, 1, 1, 1, 1, 1, 1, 2, 2, 0, 3, 255}).Draw(t, "op")
	if Chance(t, "op-any", 1, 20) {
		p.Op = rapid.Byte().Draw(t, "op-byte")
	}
	p.HType = rapid.SampledFrom([]uint8{1, 1, 1, 6, 27, 0, 255}).Draw(t, "htype")
	hw := rapid.SampledFrom(Clients4).Draw(t, "chaddr")
	p.CHAddr = hw
	p.HLen = uint8(len(hw) / 2)
	if Chance(t, "hlen-lie", 1, 10) {
		p.HLen = rapid.SampledFrom([]uint8{0, 1, 6, 16, 17, 64, 255}).Draw(t, "hlen")
	}
	p.Hops = uint8(rapid.IntRange(0, 3).Draw(t, "hops"))
	p.Xid = rapid.Uint32().Draw(t, "xid")
	p.Secs = uint16(rapid.IntRange(0, 3).Draw(t, "secs"))
	p.Flags = rapid.SampledFrom([]uint16{0, 0, 0x8000, 0x8000, 0x0001, 0xffff}).Draw(t, "flags")
	if rapid.IntRange(0, 3).Draw(t, "has-ciaddr") == 0 {
		p.CIAddr = randIP4(t, "ciaddr")
	}
	if rapid.IntRange(0, 3).Draw(t, "has-giaddr") == 0 {
		p.GIAddr = randIP4(t, "giaddr")
	}
	if rapid.IntRange(0, 5).Draw(t, "has-siaddr") == 0 {
		p.SIAddr = rapid.SampledFrom([]string{"10.10.10.1", "10.10.10.2", "0.0.0.0"}).Draw(t, "siaddr")
	}
	if rapid.IntRange(0, 9).Draw(t, "has-yiaddr") == 0 {
		p.YIAddr = randIP4(t, "yiaddr")
	}
	if rapid.IntRange(0, 9).Draw(t, "has-sname") == 0 {
		p.SName = rapid.SampledFrom([]string{"srv", string(make([]byte, 64)), "0123456789012345678901234567890123456789012345678901234567890123"}).Draw(t, "sname")
	}
	// options
	mt := rapid.IntRange(0, 13).Draw(t, "msgtype-kind")
	switch {
	case mt <= 4:
		p.Opts = append(p.Opts, Opt4{53, "01"})
	case mt <= 8:
		p.Opts = append(p.Opts, Opt4{53, "03"})
	case mt == 13:
		// the other message types clients (and servers) really send: DECLINE, RELEASE, INFORM, OFFER, ACK, NAK,
		// FORCERENEW, LEASEQUERY, ...
		p.Opts = append(p.Opts, Opt4{53, H([]byte{rapid.SampledFrom([]byte{8, 8, 7, 4, 2, 5, 6, 9, 10, 13, 0}).Draw(t, "msgtype-real")})})
	case mt == 9:
		p.Opts = append(p.Opts, Opt4{53, H([]byte{rapid.Byte().Draw(t, "msgtype")})})
	case mt == 10:
		p.Opts = append(p.Opts, Opt4{53, rapid.SampledFrom([]string{"", "0101", "0301ff"}).Draw(t, "msgtype-badlen")})
	case mt == 11:
		p.Opts = append(p.Opts, Opt4{53, "01"}, Opt4{53, "03"})
	}
	if rapid.IntRange(0, 2).Draw(t, "has-prl") > 0 {
		n := rapid.IntRange(1, 8).Draw(t, "prl-n")
		b := make([]byte, n)
		for i := range b {
			b[i] = rapid.SampledFrom([]byte{1, 3, 6, 15, 26, 51, 54, 66, 67, 108, 116, 119, 121, 12, 255, 0}).Draw(t, "prl-code")
		}
		p.Opts = append(p.Opts, Opt4{55, H(b)})
	}
	if rapid.IntRange(0, 3).Draw(t, "has-50") == 0 {
		p.Opts = append(p.Opts, Opt4{50, H(ip4(randIP4(t, "req-ip")))})
	}
	if rapid.IntRange(0, 3).Draw(t, "has-54") == 0 {
		p.Opts = append(p.Opts, Opt4{54, rapid.SampledFrom([]string{"0a0a0a01", "0a0a0a02", "00000000", "0a0a0a", "0a0a0a0100"}).Draw(t, "opt54")})
	}
	if rapid.IntRange(0, 2).Draw(t, "has-61") == 0 {
		// type 1 + MAC, a single byte, DUID-based (RFC 4361), 255 bytes, empty, and the PXE shape (type 0 + 16-byte UUID)
		p.Opts = append(p.Opts, Opt4{61, rapid.SampledFrom([]string{"01020000000001", "00", "ff0102030405060708090a0b0c0d0e0f", H(make([]byte, 255)), "", "0000112233445566778899aabbccddeeff", "00" + "0102030405060708090a0b0c0d0e0f10"}).Draw(t, "opt61")})
	}
	if rapid.IntRange(0, 2).Draw(t, "has-82") == 0 {
		// circuit id, + remote id, empty / lying sub-option lengths, 200 zero bytes, empty, link selection (5),
		// server identifier override (11, RFC 5107) of 4 and of 3 bytes, relay flags (10)
		p.Opts = append(p.Opts, Opt4{82, rapid.SampledFrom([]string{"01046369726332", "0104636972630206aabbccddeeff", "0100", "01ff", H(make([]byte, 200)), "",
			"05040a0a0a00", "0b04c0000201", "01046369726332" + "0b04c0000201", "0b03c00002", "0a0180", "0b040a0a0a01"}).Draw(t, "opt82")})
	}
	if rapid.IntRange(0, 3).Draw(t, "has-57") == 0 {
		// maximum DHCP message size: the RFC 2132 minimum, below it, just above, typical, extreme, malformed;
		// in half of these the echoed options are large, so that the reply is longer than the smaller values
		p.Opts = append(p.Opts, Opt4{57, rapid.SampledFrom([]string{"0240", "0240", "0241", "0224", "0400", "05dc", "ffff", "0000", "02", ""}).Draw(t, "opt57")})
		if rapid.Bool().Draw(t, "57-large-echo") {
			var keep []Opt4
			for _, o := range p.Opts {
				if o.Code != 61 && o.Code != 82 {
					keep = append(keep, o)
				}
			}
			p.Opts = append(keep, Opt4{61, H(append([]byte{0}, make([]byte, 254)...))}, Opt4{82, "01c8" + H(make([]byte, 200))})
		}
	}
	if rapid.IntRange(0, 3).Draw(t, "has-12") == 0 {
		p.Opts = append(p.Opts, Opt4{12, H(rapid.SliceOfN(rapid.Byte(), 0, 40).Draw(t, "hostname"))})
	}
	if rapid.IntRange(0, 4).Draw(t, "has-116") == 0 {
		p.Opts = append(p.Opts, Opt4{116, rapid.SampledFrom([]string{"01", "00", "", "0102"}).Draw(t, "opt116")})
	}
	if rapid.IntRange(0, 7).Draw(t, "has-special") == 0 {
		// options that mean something to some server implementations: rapid commit (80), PXE client UUID (97)
		// well-formed and not, client architecture (93), vendor class (60), subnet selection (118), user class (77)
		sp := rapid.SampledFrom([]Opt4{{80, ""}, {97, "0000112233445566778899aabbccddeeff"}, {97, "00"}, {93, "0007"}, {60, H([]byte("PXEClient:Arch:00007"))}, {118, "0a0a0a00"}, {77, "0469505845"}, {80, "00"}}).Draw(t, "special")
		p.Opts = append(p.Opts, sp)
	}
	if rapid.IntRange(0, 5).Draw(t, "has-generic") == 0 {
		p.Opts = append(p.Opts, Opt4{rapid.Byte().Draw(t, "gen-code"), H(rapid.SliceOfN(rapid.Byte(), 0, 20).Draw(t, "gen-data"))})
	}
	if rapid.IntRange(0, 7).Draw(t, "pad") == 0 {
		p.Opts = append([]Opt4{{0, ""}, {0, ""}}, p.Opts...)
	}
	if len(p.Opts) > 1 && rapid.IntRange(0, 3).Draw(t, "shuffle") == 0 {
		p.Opts = rapid.Permutation(p.Opts).Draw(t, "opt-order")
	}
	p.NoEnd = Chance(t, "noend", 1, 25)
	p.BadCookie = Chance(t, "badcookie", 1, 40)
	return p
}

// Relay6Spec is one relay layer (outermost first in a slice)
type Relay6Spec struct {
	Type    uint8  `json:"type"`
	Hop     uint8  `json:"hop,omitempty"`
	Link    string `json:"link"`
	Peer    string `json:"peer"`
	IfaceID string `json:"ifaceid,omitempty"` // hex; "-" = absent
	Remote  string `json:"remote,omitempty"`  // hex of a remote-id option payload
	LLAddr  string `json:"lladdr,omitempty"`  // hex, client link-layer address option payload
	NoMsg   bool   `json:"nomsg,omitempty"`   // omit the relay message option
}

// Msg6Spec is a structured DHCPv6 client message
type Msg6Spec struct {
	Type   uint8  `json:"type"`
	Xid    uint32 `json:"xid"`
	Client int    `json:"client"` // index into ClientDUIDs, -1 = no client id
	// Server: "" none | own | other
	Server string       `json:"server,omitempty"`
	Rapid  bool         `json:"rapid,omitempty"`
	ORO    []uint16     `json:"oro,omitempty"`
	IANA   int          `json:"iana,omitempty"` // number of IA_NA options
	IAPD   [][]PD6Hint  `json:"iapd,omitempty"` // per IA_PD its IAPrefix hints
	Extra  []TLV6Hex    `json:"extra,omitempty"`
	Relays []Relay6Spec `json:"relays,omitempty"` // outermost first
	// PadTo > 0: an opaque option (code 65001) is inserted so that what follows it starts exactly at
	// this offset of the datagram: after the client identifier of an un-relayed message (server
	// identifier, rapid commit, ... come behind it), or first in the outermost relay layer (its
	// Interface-ID and the relayed message come behind it). Large datagrams are legal up to 65527 bytes
	PadTo int `json:"padto,omitempty"`
	// Big > 0: an opaque option of that many bytes closes the innermost message
	Big int `json:"big,omitempty"`
}

// PD6Hint is an IAPrefix as written on the wire
type PD6Hint struct {
	Len uint8  `json:"len"`
	IP  string `json:"ip"`
}

// TLV6Hex is a raw option
type TLV6Hex struct {
	Code uint16 `json:"code"`
	Hex  string `json:"hex"`
}

// Bytes serialises the message with its relay layers
func (m Msg6Spec) Bytes() []byte {
	var opts [][]byte
	if m.Client >= 0 && m.Client < len(ClientDUIDs) {
		opts = append(opts, Opt6(O6ClientID, ClientDUIDs[m.Client]))
	}
	if m.PadTo > 0 && len(m.Relays) == 0 {
		if n := m.PadTo - 4 - len(cat(opts...)) - 4; n >= 0 && n <= 65535 {
			opts = append(opts, Opt6(65001, make([]byte, n)))
		}
	}
	switch m.Server {
	case "own":
		opts = append(opts, Opt6(O6ServerID, OwnDUID6))
	case "other":
		opts = append(opts, Opt6(O6ServerID, DUIDLL(1, []byte{0, 0xde, 0xad, 0xbe, 0xef, 0x01})))
	}
	if m.Rapid {
		opts = append(opts, Opt6(O6RapidCommit, nil))
	}
	if m.ORO != nil {
		opts = append(opts, ORO6(m.ORO...))
	}
	for i := 0; i < m.IANA; i++ {
		opts = append(opts, IANA6([4]byte{0, 0, 1, byte(i)}, 0, 0))
	}
	for i, hints := range m.IAPD {
		var sub [][]byte
		for _, h := range hints {
			sub = append(sub, IAPrefix6(0, 0, h.Len, net.ParseIP(h.IP)))
		}
		opts = append(opts, IAPD6([4]byte{0, 0, 2, byte(i)}, 0, 0, sub...))
	}
	for _, e := range m.Extra {
		opts = append(opts, Opt6(e.Code, UnH(e.Hex)))
	}
	if m.Big > 0 && m.Big <= 65535 {
		opts = append(opts, Opt6(65001, make([]byte, m.Big)))
	}
	w := Msg6(m.Type, m.Xid, opts...)
	for i := len(m.Relays) - 1; i >= 0; i-- {
		r := m.Relays[i]
		var extra [][]byte
		if i == 0 && m.PadTo > 0 {
			if n := m.PadTo - 34 - 4; n >= 0 && n+len(w)+60 <= 65000 {
				extra = append(extra, Opt6(65001, make([]byte, n)))
			}
		}
		if r.IfaceID != "-" {
			extra = append(extra, Opt6(O6InterfaceID, UnH(r.IfaceID)))
		}
		if r.Remote != "" {
			extra = append(extra, Opt6(O6RemoteID, UnH(r.Remote)))
		}
		if r.LLAddr != "" {
			extra = append(extra, Opt6(O6ClientLLAddr, UnH(r.LLAddr)))
		}
		w = Relay6(r.Type, r.Hop, net.ParseIP(r.Link), net.ParseIP(r.Peer), w, r.NoMsg, extra...)
	}
	return w
}

func randIP6(t *rapid.T, label string) string {
	switch rapid.IntRange(0, 5).Draw(t, label+"-kind") {
	case 0:
		return "::"
	case 1:
		return "fe80::211:22ff:fe33:4455"
	case 2:
		return "ff02::1:2"
	default:
		ip := make(net.IP, 16)
		copy(ip, net.ParseIP("2001:db8::"))
		binary.BigEndian.PutUint64(ip[8:], rapid.Uint64().Draw(t, label))
		return ip.String()
	}
}

// PoolBlock6 returns block k of the prefix pool the v6 chains use (2001:db8:0:1000::/60, /64 blocks)
func PoolBlock6(k int) string {
	ip := net.ParseIP("2001:db8:0:1000::")
	ip[7] += byte(k)
	return ip.String()
}

// GenMsg6 draws a structured DHCPv6 message
func GenMsg6(t *rapid.T) Msg6Spec {
	var m Msg6Spec
	m.Type = rapid.SampledFrom([]uint8{1, 1, 1, 1, 3, 3, 3, 4, 5, 5, 5, 6, 6, 8, 8, 11, 11, 9, 2, 7, 10, 0, 12, 13, 14, 255}).Draw(t, "type")
	if Chance(t, "type-any", 1, 20) {
		m.Type = rapid.Byte().Draw(t, "type-byte")
	}
	m.Xid = rapid.Uint32Range(0, 0xffffff).Draw(t, "xid")
	m.Client = rapid.SampledFrom([]int{0, 0, 0, 1, 1, 2, 3, 4, 5, 6, -1}).Draw(t, "client")
	m.Server = rapid.SampledFrom([]string{"", "", "own", "own", "other"}).Draw(t, "server")
	m.Rapid = rapid.IntRange(0, 4).Draw(t, "rapid") == 0
	if rapid.Bool().Draw(t, "has-oro") {
		n := rapid.IntRange(0, 5).Draw(t, "oro-n")
		m.ORO = []uint16{}
		for i := 0; i < n; i++ {
			m.ORO = append(m.ORO, rapid.SampledFrom([]uint16{23, 24, 59, 60, 31, 0, 65535}).Draw(t, "oro-code"))
		}
	}
	m.IANA = rapid.SampledFrom([]int{0, 1, 1, 2}).Draw(t, "iana")
	npd := rapid.SampledFrom([]int{0, 0, 1, 1, 1, 2, 3}).Draw(t, "npd")
	for i := 0; i < npd; i++ {
		nh := rapid.SampledFrom([]int{0, 0, 1, 1, 2, 3}).Draw(t, "nhints")
		hints := []PD6Hint{}
		for j := 0; j < nh; j++ {
			var h PD6Hint
			switch rapid.IntRange(0, 7).Draw(t, "hint-kind") {
			case 0:
				h = PD6Hint{0, "::"}
			case 1:
				h = PD6Hint{uint8(rapid.IntRange(1, 128).Draw(t, "hint-len")), "::"}
			case 2, 3, 4:
				h = PD6Hint{64, PoolBlock6(rapid.IntRange(0, 17).Draw(t, "hint-block"))}
			case 5:
				h = PD6Hint{uint8(rapid.IntRange(0, 255).Draw(t, "hint-anylen")), PoolBlock6(rapid.IntRange(0, 15).Draw(t, "hint-block"))}
			case 6:
				h = PD6Hint{0, PoolBlock6(1)}
			default:
				h = PD6Hint{64, randIP6(t, "hint-ip")}
			}
			hints = append(hints, h)
		}
		m.IAPD = append(m.IAPD, hints)
	}
	if rapid.IntRange(0, 5).Draw(t, "has-extra") == 0 {
		m.Extra = append(m.Extra, TLV6Hex{rapid.SampledFrom([]uint16{8, 16, 39, 1, 2, 3, 25, 9, 65000}).Draw(t, "extra-code"), H(rapid.SliceOfN(rapid.Byte(), 0, 24).Draw(t, "extra-data"))})
	}
	if Chance(t, "padto", 1, 15) {
		m.PadTo = rapid.SampledFrom([]int{512, 1024, 1500, 2048, 4096, 4096, 8192, 16384, 32768}).Draw(t, "padto-at")
	} else if Chance(t, "big", 1, 30) {
		m.Big = rapid.SampledFrom([]int{1200, 3000, 5000, 20000, 60000}).Draw(t, "big-n")
	}
	depth := rapid.SampledFrom([]int{0, 0, 0, 1, 1, 2, 3, 4}).Draw(t, "relay-depth")
	for i := 0; i < depth; i++ {
		r := Relay6Spec{Type: M6RelayForw, Hop: uint8(depth - 1 - i), Link: randIP6(t, "link"), Peer: randIP6(t, "peer")}
		switch rapid.IntRange(0, 3).Draw(t, "ifaceid") {
		case 0:
			r.IfaceID = "-"
		case 1:
			r.IfaceID = ""
		default:
			r.IfaceID = H(rapid.SliceOfN(rapid.Byte(), 1, 12).Draw(t, "ifaceid-data"))
		}
		if rapid.IntRange(0, 3).Draw(t, "remote") == 0 {
			r.Remote = "00007ed9" + H(rapid.SliceOfN(rapid.Byte(), 0, 8).Draw(t, "remote-data"))
		}
		if rapid.IntRange(0, 3).Draw(t, "lladdr") == 0 {
			r.LLAddr = "0001" + rapid.SampledFrom([]string{"001122334455", "020000000001", "0200"}).Draw(t, "lladdr-mac")
		}
		if i == 0 && Chance(t, "outer-reply", 1, 10) {
			r.Type = M6RelayRepl
		}
		if Chance(t, "nomsg", 1, 15) {
			r.NoMsg = true
		}
		m.Relays = append(m.Relays, r)
	}
	return m
}

// MutateBytes applies 0..3 byte mutations drawn from rapid
func MutateBytes(t *rapid.T, b []byte, other []byte) []byte {
	n := rapid.IntRange(1, 3).Draw(t, "nmut")
	b = append([]byte(nil), b...)
	for i := 0; i < n && len(b) > 0; i++ {
		pos := rapid.IntRange(0, len(b)-1).Draw(t, "mut-pos")
		switch rapid.IntRange(0, 5).Draw(t, "mut-kind") {
		case 0:
			b = b[:pos]
		case 1:
			b[pos] ^= 1 << uint(rapid.IntRange(0, 7).Draw(t, "mut-bit"))
		case 2:
			b[pos] = rapid.SampledFrom([]byte{0, 1, 0x7f, 0x80, 0xff, 4, 16}).Draw(t, "mut-val")
		case 3:
			if len(other) > 0 {
				cut := rapid.IntRange(0, len(other)-1).Draw(t, "splice-at")
				b = append(b[:pos], other[cut:]...)
			}
		case 4:
			b = append(b, rapid.SliceOfN(rapid.Byte(), 1, 16).Draw(t, "garbage")...)
		case 5:
			// overwrite what is probably a length byte with a large value
			b[pos] = byte(rapid.IntRange(200, 255).Draw(t, "mut-len"))
		}
	}
	return b
}
