//go:build verif

package pd6

import (
	"testing"

	"verif/harness/core"
)

func TestC08(t *testing.T) { core.Run(t, "C08", GenCase("C08"), Exec) }
func TestC09(t *testing.T) { core.Run(t, "C09", GenCase("C09"), Exec) }
