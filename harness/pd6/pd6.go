//go:build verif

// Package pd6 decides C08 (delegated prefixes are in the pool, well-formed and
// disjoint across clients) and C09 (a client keeps its delegated prefix) by
// running generated DHCPv6 message histories through the handler obtained from
// prefix.Plugin.Setup6 and an explicit model (owner table, held sets).
package pd6

import (
	"bytes"
	"encoding/hex"
	"fmt"
	"math/big"
	"net"
	"sort"
	"strconv"
	"strings"
	"sync"
	"time"

	"github.com/coredhcp/coredhcp/handler"
	"github.com/coredhcp/coredhcp/plugins/prefix"
	"github.com/insomniacslk/dhcp/dhcpv6"
	"github.com/insomniacslk/dhcp/iana"
	"verif/harness/core"
	"verif/harness/gen"
)

// Hint is one IAPrefix of a request IA_PD, symbolic
type Hint struct {
	// Kind:
	//  len0     wire length 0, address ::                  (the unspecified ::/0)
	//  len0addr wire length 0, address non-zero
	//  lenonly  address ::, length Len
	//  free     k-th free block of the pool, length = page (+Extra)
	//  self     k-th prefix this client holds, exactly as it was told
	//  other    k-th prefix held by some other client
	//  blk      block K mod N of the pool whatever its state
	//  outpool  a prefix outside the pool
	//  after    the block right after the pool (K%3 blocks further), before: right before it
	//  toolong  length > 128 on the wire
	Kind  string `json:"kind"`
	K     uint64 `json:"k,omitempty"`
	Len   int    `json:"len,omitempty"`
	Extra int    `json:"extra,omitempty"` // free/blk: length = page+Extra (may be negative: shorter than the page)
	Inner uint64 `json:"inner,omitempty"` // free/blk: host bits set inside the block
	// Pref, Valid: the lifetime fields of the IAPrefix option (the client's preference)
	Pref  uint32 `json:"pref,omitempty"`
	Valid uint32 `json:"valid,omitempty"`
}

// IAPD is one IA_PD option of a request
type IAPD struct {
	IAID  uint32 `json:"iaid"`
	Hints []Hint `json:"hints,omitempty"`
}

// Msg is one message of the history
type Msg struct {
	Client int    `json:"client"`
	Type   uint8  `json:"type"`
	Rapid  bool   `json:"rapid,omitempty"`
	Relay  int    `json:"relay,omitempty"`
	IAPDs  []IAPD `json:"iapds,omitempty"`
	// Repeat: resend this client's previous message byte for byte instead
	Repeat bool `json:"repeat,omitempty"`
	// Age: not a message: that many seconds go by without any traffic (the plugin's
	// records are aged through the verif hook; leases last an hour)
	Age int `json:"age,omitempty"`
}

// Case is a pool, some clients and a history
type Case struct {
	Mode    string   `json:"mode"` // C08 | C09
	Pool    string   `json:"pool"` // CIDR
	Page    int      `json:"page"`
	Clients []string `json:"clients"` // raw DUIDs, hex
	Msgs    []Msg    `json:"msgs"`
	// Conc: per goroutine message lists run concurrently after Msgs (C08)
	Conc [][]Msg `json:"conc,omitempty"`
}

type model struct {
	c          *Case
	base       *big.Int
	poolLen    int
	n          uint64
	blockSz    *big.Int
	owner      map[uint64]int            // block -> client index
	held       map[int][]net.IPNet       // client -> prefixes it was told it holds, in order
	validAt    map[string]lifetimeRecord // client|prefix -> last valid lifetime told
	last       map[int][]byte            // client -> last wire message
	lastSym    map[int]*Msg              // client -> symbolic form of the last message
	heldAtLast map[int]int               // client -> len(held) right after the reply to its last message
}

type lifetimeRecord struct {
	valid time.Duration
	at    time.Time
}

var two128 = new(big.Int).Lsh(big.NewInt(1), 128)

func newModel(c *Case) (*model, error) {
	_, pool, err := net.ParseCIDR(c.Pool)
	if err != nil {
		return nil, err
	}
	l, _ := pool.Mask.Size()
	m := &model{c: c, poolLen: l, owner: map[uint64]int{}, held: map[int][]net.IPNet{}, validAt: map[string]lifetimeRecord{},
		last: map[int][]byte{}, lastSym: map[int]*Msg{}, heldAtLast: map[int]int{}}
	m.base = new(big.Int).SetBytes(pool.IP.To16())
	m.n = 1 << uint(c.Page-l)
	m.blockSz = new(big.Int).Lsh(big.NewInt(1), uint(128-c.Page))
	return m, nil
}

func (m *model) blockIP(idx uint64, inner uint64) net.IP {
	v := new(big.Int).Mul(new(big.Int).SetUint64(idx), m.blockSz)
	v.Add(v, m.base)
	if inner != 0 {
		in := new(big.Int).SetUint64(inner)
		in.Mul(in, new(big.Int).SetUint64(0x9E3779B97F4A7C15))
		in.Mod(in, m.blockSz)
		v.Add(v, in)
	}
	b := v.Bytes()
	ip := make(net.IP, 16)
	copy(ip[16-len(b):], b)
	return ip
}

// blockOf returns the block index of an address and whether it is in the pool
func (m *model) blockOf(ip net.IP) (uint64, bool) {
	v := new(big.Int).SetBytes(ip.To16())
	v.Sub(v, m.base)
	if v.Sign() < 0 {
		return 0, false
	}
	q := new(big.Int).Div(v, m.blockSz)
	if q.Cmp(new(big.Int).SetUint64(m.n)) >= 0 {
		return 0, false
	}
	return q.Uint64(), true
}

func (m *model) kthFree(k uint64) (uint64, bool) {
	free := m.n - uint64(len(m.owner))
	if free == 0 {
		return 0, false
	}
	k %= free
	for i := uint64(0); i < m.n; i++ {
		if _, ok := m.owner[i]; !ok {
			if k == 0 {
				return i, true
			}
			k--
		}
	}
	return 0, false
}

func (m *model) othersHeld(client int) []net.IPNet {
	var cl []int
	for c := range m.held {
		if c != client {
			cl = append(cl, c)
		}
	}
	sort.Ints(cl)
	var r []net.IPNet
	for _, c := range cl {
		r = append(r, m.held[c]...)
	}
	return r
}

// wireHint is a resolved hint plus what the oracle needs to know about it
type wireHint struct {
	pref  uint32
	valid uint32
	plen  uint8
	ip    net.IP
	exact *net.IPNet // non-nil: names exactly this prefix the client holds
	empty bool       // the unspecified ::/0
}

func (m *model) resolveHint(client int, h Hint) (wireHint, bool) {
	var w wireHint
	zero := make(net.IP, 16)
	switch h.Kind {
	case "len0":
		w.plen, w.ip, w.empty = 0, zero, true
	case "len0addr":
		w.plen, w.ip = 0, m.blockIP(h.K%m.n, 1)
	case "lenonly":
		l := h.Len
		if l < 1 {
			l = 1
		}
		if l > 128 {
			l = 128
		}
		w.plen, w.ip = uint8(l), zero
	case "free", "blk":
		var idx uint64
		if h.Kind == "free" {
			var ok bool
			if idx, ok = m.kthFree(h.K); !ok {
				return w, false
			}
		} else {
			idx = h.K % m.n
		}
		l := m.c.Page + h.Extra
		if l < 1 {
			l = 1
		}
		if l > 128 {
			l = 128
		}
		w.plen, w.ip = uint8(l), m.blockIP(idx, h.Inner)
	case "self":
		hs := m.held[client]
		if len(hs) == 0 {
			return w, false
		}
		p := hs[h.K%uint64(len(hs))]
		l, _ := p.Mask.Size()
		w.plen, w.ip = uint8(l), append(net.IP(nil), p.IP...)
		w.exact = &p
	case "other":
		hs := m.othersHeld(client)
		if len(hs) == 0 {
			return w, false
		}
		p := hs[h.K%uint64(len(hs))]
		l, _ := p.Mask.Size()
		w.plen, w.ip = uint8(l), append(net.IP(nil), p.IP...)
	case "after", "before":
		// the block right after the last block of the pool / right before its first one (K more
		// blocks away), if the address space has room for it
		n := new(big.Int).SetUint64(m.n + h.K%3)
		if h.Kind == "before" {
			n = big.NewInt(-1 - int64(h.K%3))
		}
		v := new(big.Int).Add(m.base, new(big.Int).Mul(n, m.blockSz))
		if v.Sign() < 0 || v.Cmp(two128) >= 0 {
			return w, false
		}
		ip := make(net.IP, 16)
		v.FillBytes(ip)
		w.plen, w.ip = uint8(m.c.Page), ip
	case "outpool":
		// flip the top bit of the pool base: never inside the pool (pool length >= 1)
		ip := m.blockIP(0, h.Inner)
		ip[0] ^= 0x80
		w.plen, w.ip = uint8(m.c.Page), ip
	case "toolong":
		w.plen, w.ip = uint8(129+h.K%100), m.blockIP(h.K%m.n, 0)
	default:
		return w, false
	}
	// a blk/free/other hint may happen to name exactly a prefix the client holds
	if w.exact == nil && w.plen != 0 {
		for i := range m.held[client] {
			p := m.held[client][i]
			l, _ := p.Mask.Size()
			if int(w.plen) == l && p.IP.Equal(w.ip) {
				w.exact = &p
			}
		}
	}
	return w, true
}

var relayLink = net.ParseIP("2001:db8:ffff::1")

// build resolves a symbolic message into wire bytes; it also returns the
// per-IA_PD resolved hints for the oracle
func (m *model) build(msg *Msg, xid uint32) ([]byte, [][]wireHint) {
	var opts [][]byte
	if msg.Client >= 0 && msg.Client < len(m.c.Clients) {
		duid, _ := hex.DecodeString(m.c.Clients[msg.Client])
		opts = append(opts, gen.Opt6(gen.O6ClientID, duid))
	}
	if msg.Rapid {
		opts = append(opts, gen.Opt6(gen.O6RapidCommit, nil))
	}
	opts = append(opts, gen.Opt6(gen.O6ElapsedTime, []byte{0, 0}))
	var resolved [][]wireHint
	for _, ia := range msg.IAPDs {
		var sub [][]byte
		var ws []wireHint
		for _, h := range ia.Hints {
			w, ok := m.resolveHint(msg.Client, h)
			if !ok {
				continue
			}
			w.pref, w.valid = h.Pref, h.Valid
			ws = append(ws, w)
			sub = append(sub, gen.IAPrefix6(h.Pref, h.Valid, w.plen, w.ip))
		}
		resolved = append(resolved, ws)
		var iaid [4]byte
		iaid[0], iaid[1], iaid[2], iaid[3] = byte(ia.IAID>>24), byte(ia.IAID>>16), byte(ia.IAID>>8), byte(ia.IAID)
		opts = append(opts, gen.IAPD6(iaid, 0, 0, sub...))
	}
	wire := gen.Msg6(msg.Type, xid, opts...)
	for i := 0; i < msg.Relay; i++ {
		peer := net.ParseIP("fe80::1")
		wire = gen.Relay6(gen.M6RelayForw, uint8(i), relayLink, peer, wire, false, gen.Opt6(gen.O6InterfaceID, []byte{byte(i), 'i', 'f'}))
	}
	return wire, resolved
}

func setup(c *Case) (handler.Handler6, error) {
	prefix.VerifReset()
	return prefix.Plugin.Setup6(c.Pool, strconv.Itoa(c.Page))
}

type iapdAnswer struct {
	iaid     [4]byte
	prefixes []*dhcpv6.OptIAPrefix
	status   *dhcpv6.OptStatusCode
}

// callHandler runs one wire message through the handler; it returns the
// answer IA_PDs (from the re-parsed wire form of the result and from the
// result object) or a violation of the handler contract
func callHandler(h handler.Handler6, wire []byte) (inner *dhcpv6.Message, objAns, wireAns []iapdAnswer, skipped bool, v *core.Violation) {
	req, innerMsg, stub, ok := gen.Stub6(wire)
	if !ok {
		return nil, nil, nil, true, nil
	}
	var res dhcpv6.DHCPv6
	var stop bool
	returned, pan := core.Call(20*time.Second, func() { res, stop = h(req, stub) })
	if pan != nil {
		panic(pan)
	}
	if !returned {
		return innerMsg, nil, nil, false, core.Violate("C08/wedged", "the handler did not return within 20 s for a message with %d IA_PD (a lock is held forever)", len(innerMsg.Options.IAPD()))
	}
	if res == nil {
		return innerMsg, nil, nil, false, core.Violate("C08/no-answer", "handler returned nil (stop=%v) for a message with a client id and %d IA_PD", stop, len(innerMsg.Options.IAPD()))
	}
	var stopped *core.Violation
	if stop {
		// reported below, together with what the response carries (C09 looks at it first)
		stopped = core.Violate("C08/stops-chain", "handler stopped the chain")
	}
	rm, ok := res.(*dhcpv6.Message)
	if !ok {
		return innerMsg, nil, nil, false, core.Violate("C08/not-a-message", "handler result is not a message")
	}
	for _, ia := range rm.Options.IAPD() {
		objAns = append(objAns, iapdAnswer{iaid: ia.IaId, prefixes: ia.Options.Prefixes(), status: ia.Options.Status()})
	}
	back, err := dhcpv6.FromBytes(rm.ToBytes())
	if err != nil {
		return innerMsg, nil, nil, false, core.Violate("C08/reply-does-not-parse", "reply does not parse: %v", err)
	}
	bm := back.(*dhcpv6.Message)
	for _, ia := range bm.Options.IAPD() {
		wireAns = append(wireAns, iapdAnswer{iaid: ia.IaId, prefixes: ia.Options.Prefixes(), status: ia.Options.Status()})
	}
	return innerMsg, objAns, wireAns, false, stopped
}

// validate checks the C08 predicates of one reply and returns the delegated
// prefixes per response IA_PD (as block index)
func (m *model) validate(client int, inner *dhcpv6.Message, objAns, wireAns []iapdAnswer) *core.Violation {
	reqIAs := inner.Options.IAPD()
	// one-to-one correspondence by IAID (multisets)
	cnt := map[[4]byte]int{}
	for _, ia := range reqIAs {
		cnt[ia.IaId]++
	}
	for _, a := range wireAns {
		cnt[a.iaid]--
	}
	for id, n := range cnt {
		if n != 0 {
			return core.Violate("C08/iapd-correspondence", "request has %d IA_PD, reply has %d; IAID %x differs by %d", len(reqIAs), len(wireAns), id, n)
		}
	}
	if len(objAns) != len(wireAns) {
		return core.Violate("C08/iapd-correspondence", "reply object has %d IA_PD, its wire form %d", len(objAns), len(wireAns))
	}
	for i, a := range wireAns {
		if len(a.prefixes) == 0 {
			if a.status == nil || a.status.StatusCode != iana.StatusNoPrefixAvail {
				return core.Violate("C08/empty-iapd-without-noprefixavail", "IA_PD %x has no prefix and status %v", a.iaid, a.status)
			}
			continue
		}
		for j, p := range a.prefixes {
			if p.Prefix == nil {
				return core.Violate("C08/prefix-malformed", "IA_PD %x: delegated prefix has length 0", a.iaid)
			}
			ones, bits := p.Prefix.Mask.Size()
			if bits != 128 || ones < m.c.Page || ones > 128 {
				return core.Violate("C08/prefix-length", "IA_PD %x: delegated %s has length %d, want %d..128", a.iaid, p.Prefix, ones, m.c.Page)
			}
			idx, in := m.blockOf(p.Prefix.IP)
			if !in {
				return core.Violate("C08/prefix-outside-pool", "IA_PD %x: delegated %s is outside pool %s", a.iaid, p.Prefix, m.c.Pool)
			}
			if !m.blockIP(idx, 0).Equal(p.Prefix.IP) {
				return core.Violate("C08/prefix-misaligned", "IA_PD %x: delegated %s is not aligned to /%d", a.iaid, p.Prefix, m.c.Page)
			}
			if !(p.PreferredLifetime > 0 && p.PreferredLifetime <= p.ValidLifetime && p.ValidLifetime <= 3600*time.Second) {
				return core.Violate("C08/lifetimes", "IA_PD %x: %s has preferred %v valid %v on the wire", a.iaid, p.Prefix, p.PreferredLifetime, p.ValidLifetime)
			}
			if j < len(objAns[i].prefixes) {
				o := objAns[i].prefixes[j]
				if !(o.PreferredLifetime > 0 && o.PreferredLifetime <= o.ValidLifetime && o.ValidLifetime <= 3600*time.Second) {
					return core.Violate("C08/lifetimes", "IA_PD %x: %s has preferred %v valid %v", a.iaid, o.Prefix, o.PreferredLifetime, o.ValidLifetime)
				}
			}
		}
	}
	return nil
}

func pkey(client int, p *net.IPNet) string { return fmt.Sprintf("%d|%s", client, p.String()) }

// record updates owner table and held sets from a validated reply
func (m *model) record(client int, wireAns []iapdAnswer, now time.Time) *core.Violation {
	for _, a := range wireAns {
		for _, p := range a.prefixes {
			idx, _ := m.blockOf(p.Prefix.IP)
			if o, ok := m.owner[idx]; ok && o != client {
				return core.Violate("C08/block-delegated-to-two-clients", "block %d (%s) delegated to client %d was already delegated to client %d", idx, p.Prefix, client, o)
			}
			m.owner[idx] = client
			known := false
			for _, hp := range m.held[client] {
				if hp.IP.Equal(p.Prefix.IP) && bytes.Equal(hp.Mask, p.Prefix.Mask) {
					known = true
				}
			}
			if !known {
				m.held[client] = append(m.held[client], net.IPNet{IP: append(net.IP(nil), p.Prefix.IP...), Mask: append(net.IPMask(nil), p.Prefix.Mask...)})
			}
			m.validAt[pkey(client, p.Prefix)] = lifetimeRecord{valid: p.ValidLifetime, at: now}
		}
	}
	return nil
}

func contains(a iapdAnswer, p *net.IPNet) *dhcpv6.OptIAPrefix {
	for _, q := range a.prefixes {
		if q.Prefix != nil && q.Prefix.IP.Equal(p.IP) && bytes.Equal(q.Prefix.Mask, p.Mask) {
			return q
		}
	}
	return nil
}

// Exec runs one case
func Exec(c Case) (res core.Result) {
	defer func() {
		if r := recover(); r != nil {
			core.HarnessPanic(r)
			// a panic in the handler is C01's business; here it ends the case
			res = core.Result{Classes: []string{"abandoned:panic"}}
			if c.Mode == "C08" || c.Mode == "C09" {
				res.Viol = core.Violate(c.Mode+"/panic", "handler panicked: %v", r)
			}
		}
		if res.Viol != nil && strings.HasSuffix(res.Viol.Signature, "/wedged") {
			res.Viol.Signature = c.Mode + "/wedged" // no answer at all breaks either property
		}
		if res.Viol != nil && len(res.Viol.Signature) >= 3 && res.Viol.Signature[:3] != c.Mode {
			res = core.Result{Classes: []string{"abandoned:" + res.Viol.Signature[:3]}}
		}
	}()
	m, err := newModel(&c)
	if err != nil {
		res.Skipped = "bad-case"
		return
	}
	h, err := setup(&c)
	if err != nil {
		res.Viol = core.Violate(c.Mode+"/setup-rejects-valid-pool", "Setup6(%s, %d): %v", c.Pool, c.Page, err)
		return
	}
	var (
		sawRenewShape, sawRepeat, sawHintless, sawExact, sawExactAfterMulti bool
		sawExhaust, sawOtherHint, sawExpiry, sawManyHints                   bool
		multiReply                                                          = map[int]bool{}
	)
	xid := uint32(0x100)
	for i := range c.Msgs {
		msg := &c.Msgs[i]
		xid++
		if msg.Age > 0 {
			d := time.Duration(msg.Age) * time.Second
			prefix.VerifAge(d)
			for k, rec := range m.validAt {
				rec.at = rec.at.Add(-d)
				m.validAt[k] = rec
			}
			if msg.Age > 3600 {
				sawExpiry = true
			}
			continue
		}
		if msg.Client < 0 || msg.Client >= len(c.Clients) {
			continue
		}
		var wire []byte
		var resolved [][]wireHint
		repeat := false
		if msg.Repeat && m.last[msg.Client] != nil {
			wire = m.last[msg.Client]
			sym := m.lastSym[msg.Client]
			// re-resolve the previous symbolic hints against the held set as it
			// was when the original was built: recompute from the wire instead
			_ = sym
			repeat = true
		} else {
			wire, resolved = m.build(msg, xid)
		}
		for _, ia := range msg.IAPDs {
			if len(ia.Hints) > 64 && !repeat {
				sawManyHints = true
			}
		}
		heldBefore := append([]net.IPNet(nil), m.held[msg.Client]...)
		now := time.Now()
		inner, objAns, wireAns, skipped, v := callHandler(h, wire)
		if skipped {
			continue
		}
		// a reply that C08 objects to because IA_PDs go unanswered (chain stopped, no reply, IA_PDs
		// missing): C09 has its look first, for an IA_PD that renews a held prefix and gets no
		// answer is its business
		var pending *core.Violation
		unanswered := func(v *core.Violation) bool {
			return c.Mode == "C09" && (v.Signature == "C08/stops-chain" || v.Signature == "C08/no-answer" || v.Signature == "C08/iapd-correspondence")
		}
		if v != nil {
			v.Message = fmt.Sprintf("msg %d: %s", i, v.Message)
			if !unanswered(v) {
				res.Viol = v
				return
			}
			pending = v
		}
		if v := m.validate(msg.Client, inner, objAns, wireAns); v != nil && pending == nil {
			v.Message = fmt.Sprintf("msg %d: %s", i, v.Message)
			if !unanswered(v) {
				res.Viol = v
				return
			}
			pending = v
		} else if v != nil && v.Signature != "C08/iapd-correspondence" {
			// the reply is malformed in some other way as well: nothing more to learn from it
			res.Viol = pending
			return
		}
		// ---- C09: evaluated against what the client held before this message
		reqIAs := inner.Options.IAPD()
		if c.Mode != "C09" {
			reqIAs = nil // only the assertions of the property being decided are armed
			for _, a := range wireAns {
				if len(a.prefixes) == 0 {
					sawExhaust = true
				}
			}
		}
		// response IA_PDs in the order of the request's (the handler answers in order; match by position among equal IAIDs)
		used := make([]bool, len(wireAns))
		// the retransmission clause speaks about requests whose IA_PDs all ask for
		// exactly a held prefix or carry no hint: a new block consumed by any other
		// IA_PD of the same message legitimately shows up in the hint-less ones
		msgRenewShaped := len(reqIAs) > 0
		for k, ria := range reqIAs {
			hints := ria.Options.Prefixes()
			if len(hints) == 0 || (len(hints) == 1 && hints[0].Prefix == nil && isEmptyWireHint(wire, repeat, resolved, k)) {
				continue
			}
			for _, hnt := range hints {
				ok := false
				if hnt.Prefix != nil {
					for j := range heldBefore {
						if heldBefore[j].IP.Equal(hnt.Prefix.IP) && bytes.Equal(heldBefore[j].Mask, hnt.Prefix.Mask) {
							ok = true
						}
					}
				}
				if !ok {
					msgRenewShaped = false
				}
			}
		}
		for k, ria := range reqIAs {
			var ans *iapdAnswer
			for j := range wireAns {
				if !used[j] && wireAns[j].iaid == ria.IaId {
					used[j] = true
					ans = &wireAns[j]
					break
				}
			}
			hints := ria.Options.Prefixes()
			hintless := len(hints) == 0 || (len(hints) == 1 && hints[0].Prefix == nil && isEmptyWireHint(wire, repeat, resolved, k))
			if ans == nil && pending != nil && len(heldBefore) > 0 {
				asksHeld := hintless
				for _, hnt := range hints {
					for j := range heldBefore {
						if hnt.Prefix != nil && heldBefore[j].IP.Equal(hnt.Prefix.IP) && bytes.Equal(heldBefore[j].Mask, hnt.Prefix.Mask) {
							asksHeld = true
						}
					}
				}
				if asksHeld {
					res.Viol = core.Violate("C09/renewal-not-answered", "msg %d: client %d holds %d prefix(es) (%s ...); its IA_PD %x renews (no hint, or exactly a held prefix) and is not answered at all (%s)", i, msg.Client, len(heldBefore), heldBefore[0].String(), ria.IaId, pending.Signature)
					return
				}
			}
			if ans == nil {
				continue
			}
			onlyRenewShapes := true
			if hintless {
				if len(heldBefore) > 0 {
					sawRenewShape, sawHintless = true, true
				}
				for _, p := range heldBefore {
					p := p
					if contains(*ans, &p) == nil {
						res.Viol = core.Violate("C09/hintless-renew-does-not-return-held-prefix", "msg %d: client %d holds %s; its hint-less IA_PD %x was answered with %s", i, msg.Client, p.String(), ria.IaId, fmtAns(*ans))
						return
					}
				}
			} else {
				for _, hnt := range hints {
					if hnt.Prefix == nil {
						onlyRenewShapes = false
						continue
					}
					var exact *net.IPNet
					for j := range heldBefore {
						if heldBefore[j].IP.Equal(hnt.Prefix.IP) && bytes.Equal(heldBefore[j].Mask, hnt.Prefix.Mask) {
							exact = &heldBefore[j]
						}
					}
					if exact == nil {
						onlyRenewShapes = false
						continue
					}
					sawRenewShape, sawExact = true, true
					if multiReply[msg.Client] {
						sawExactAfterMulti = true
					}
					q := contains(*ans, exact)
					if q == nil {
						res.Viol = core.Violate("C09/exact-renew-does-not-return-held-prefix", "msg %d: client %d holds %s and asked for exactly it in IA_PD %x; answered with %s", i, msg.Client, exact.String(), ria.IaId, fmtAns(*ans))
						return
					}
				}
			}
			// lifetimes never shrink below what remained
			for _, q := range ans.prefixes {
				if rec, ok := m.validAt[pkey(msg.Client, q.Prefix)]; ok {
					remaining := rec.valid - now.Sub(rec.at)
					if q.ValidLifetime < remaining-2*time.Second {
						res.Viol = core.Violate("C09/lifetime-shorter-than-remaining", "msg %d: %s re-delegated with valid %v, %v remained", i, q.Prefix, q.ValidLifetime, remaining)
						return
					}
				}
			}
			// retransmission of a renew-shaped request consumes nothing new
			_ = onlyRenewShapes
			if repeat && msgRenewShaped && len(heldBefore) > 0 {
				sawRepeat = true
				for _, q := range ans.prefixes {
					found := false
					for j := range heldBefore {
						if heldBefore[j].IP.Equal(q.Prefix.IP) && bytes.Equal(heldBefore[j].Mask, q.Prefix.Mask) {
							found = true
						}
					}
					if !found {
						res.Viol = core.Violate("C09/retransmission-consumes-new-block", "msg %d: retransmitted request of client %d (holding %d prefixes) was answered with new prefix %s", i, msg.Client, len(heldBefore), q.Prefix)
						return
					}
				}
			}
			if len(ans.prefixes) == 0 {
				sawExhaust = true
			}
			if len(ans.prefixes) >= 2 {
				multiReply[msg.Client] = true
			}
		}
		for _, ws := range resolved {
			for _, w := range ws {
				if idx, in := m.blockOf(w.ip); in && w.plen != 0 {
					if o, ok := m.owner[idx]; ok && o != msg.Client {
						sawOtherHint = true
					}
				}
			}
		}
		if pending != nil {
			res.Viol = pending
			return
		}
		if v := m.record(msg.Client, wireAns, now); v != nil {
			v.Message = fmt.Sprintf("msg %d: %s", i, v.Message)
			res.Viol = v
			return
		}
		if !repeat {
			m.last[msg.Client] = wire
			m.lastSym[msg.Client] = msg
		}
	}

	conc := false
	if len(c.Conc) > 0 {
		conc = true
		if v := m.runConcurrent(h, c.Conc); v != nil {
			res.Viol = v
			return
		}
		if c.Mode == "C09" {
			// every prefix any of the concurrent replies delegated is remembered: asked for exactly,
			// one at a time, each is returned
			for cl := range c.Clients {
				held := append([]net.IPNet(nil), m.held[cl]...)
				for k := range held {
					xid++
					msg := Msg{Client: cl, Type: gen.M6Renew, IAPDs: []IAPD{{IAID: 1, Hints: []Hint{{Kind: "self", K: uint64(k)}}}}}
					wire, _ := m.build(&msg, xid)
					inner, objAns, wireAns, skipped, v := callHandler(h, wire)
					if skipped {
						continue
					}
					if v == nil {
						v = m.validate(cl, inner, objAns, wireAns)
					}
					if v != nil {
						res.Viol = v
						return
					}
					p := held[k]
					if len(wireAns) != 1 || contains(wireAns[0], &p) == nil {
						got := "nothing"
						if len(wireAns) == 1 {
							got = fmtAns(wireAns[0])
						}
						res.Viol = core.Violate("C09/exact-renew-does-not-return-held-prefix", "after a concurrent phase in which a reply told client %d that it holds %s: asked for exactly it, the client is answered with %s", cl, p.String(), got)
						return
					}
					if v := m.record(cl, wireAns, time.Now()); v != nil {
						res.Viol = v
						return
					}
				}
			}
			sawRenewShape = sawRenewShape || len(m.held) > 0
		}
	}

	holders := 0
	for _, hs := range m.held {
		if len(hs) > 0 {
			holders++
		}
	}
	switch c.Mode {
	case "C08":
		res.NonTrivial = holders >= 2 || sawExhaust || sawOtherHint || conc
	case "C09":
		res.NonTrivial = sawRenewShape
	}
	if holders >= 2 {
		res.Classes = append(res.Classes, "two-holders")
	}
	if sawExhaust {
		res.Classes = append(res.Classes, "noprefixavail")
	}
	if sawOtherHint {
		res.Classes = append(res.Classes, "hint-on-others-block")
	}
	if sawHintless {
		res.Classes = append(res.Classes, "hintless-renew")
	}
	if sawExact {
		res.Classes = append(res.Classes, "exact-renew")
	}
	if sawExactAfterMulti {
		res.Classes = append(res.Classes, "exact-renew-after-multi-prefix-reply")
	}
	if sawRepeat {
		res.Classes = append(res.Classes, "retransmit")
	}
	if sawExpiry && holders > 0 {
		res.Classes = append(res.Classes, "leases-ran-out")
	}
	if sawManyHints {
		res.Classes = append(res.Classes, "ia-pd-with-more-than-64-hints")
	}
	if conc {
		res.Classes = append(res.Classes, "concurrent")
	}
	return
}

// isEmptyWireHint tells whether the single nil-prefix hint of IA_PD k was the
// unspecified ::/0 (address ::) rather than length 0 with a non-zero address
func isEmptyWireHint(wire []byte, repeat bool, resolved [][]wireHint, k int) bool {
	if !repeat && k < len(resolved) && len(resolved[k]) == 1 {
		return resolved[k][0].empty
	}
	// retransmission: the symbolic form is gone, scan the wire for the IAPrefix options
	return wireHasOnlyZeroLen0Prefixes(wire)
}

// wireHasOnlyZeroLen0Prefixes reports whether every length-0 IAPrefix in the
// datagram carries the address ::
func wireHasOnlyZeroLen0Prefixes(wire []byte) bool {
	d, err := dhcpv6.FromBytes(wire)
	if err != nil {
		return false
	}
	inner, err := d.GetInnerMessage()
	if err != nil {
		return false
	}
	raw := inner.ToBytes()
	// walk the options of the inner message
	ok := true
	walkOpts(raw[4:], func(code uint16, data []byte) {
		if code != gen.O6IAPD || len(data) < 12 {
			return
		}
		walkOpts(data[12:], func(c2 uint16, d2 []byte) {
			if c2 == gen.O6IAPrefix && len(d2) >= 25 && d2[8] == 0 {
				for _, b := range d2[9:25] {
					if b != 0 {
						ok = false
					}
				}
			}
		})
	})
	return ok
}

func walkOpts(b []byte, f func(code uint16, data []byte)) {
	for len(b) >= 4 {
		code := uint16(b[0])<<8 | uint16(b[1])
		l := int(b[2])<<8 | int(b[3])
		if 4+l > len(b) {
			return
		}
		f(code, b[4:4+l])
		b = b[4+l:]
	}
}

func fmtAns(a iapdAnswer) string {
	var s []string
	for _, p := range a.prefixes {
		s = append(s, p.Prefix.String())
	}
	if a.status != nil {
		s = append(s, a.status.StatusCode.String())
	}
	return fmt.Sprintf("%v", s)
}

// runConcurrent: each goroutine is one client sending its own messages; the
// owner table is checked afterwards over everything that was delegated
func (m *model) runConcurrent(h handler.Handler6, scripts [][]Msg) *core.Violation {
	type rep struct {
		client int
		ans    []iapdAnswer
	}
	var (
		wg    sync.WaitGroup
		mu    sync.Mutex
		reps  []rep
		viol  *core.Violation
		start = make(chan struct{})
		abort = make(chan struct{})
		once  sync.Once
	)
	// resolve every message before any goroutine starts (no model access while running)
	type prepared struct {
		client int
		wire   []byte
	}
	prep := make([][]prepared, len(scripts))
	xid := uint32(0x800000)
	for g := range scripts {
		for i := range scripts[g] {
			xid++
			msg := scripts[g][i]
			if msg.Client < 0 || msg.Client >= len(m.c.Clients) {
				continue
			}
			w, _ := m.build(&msg, xid)
			prep[g] = append(prep[g], prepared{msg.Client, w})
		}
	}
	for g := range prep {
		wg.Add(1)
		go func(g int) {
			defer wg.Done()
			defer func() {
				if r := recover(); r != nil {
					core.HarnessPanic(r)
					mu.Lock()
					if viol == nil {
						viol = core.Violate("C08/panic", "handler panicked in concurrent phase: %v", r)
					}
					mu.Unlock()
					once.Do(func() { close(abort) })
				}
			}()
			<-start
			for _, p := range prep[g] {
				inner, objAns, wireAns, skipped, v := callHandler(h, p.wire)
				if skipped {
					continue
				}
				if v == nil {
					v = m.validate(p.client, inner, objAns, wireAns)
				}
				mu.Lock()
				if v != nil && viol == nil {
					v.Message = "concurrent: " + v.Message
					viol = v
				}
				reps = append(reps, rep{p.client, wireAns})
				mu.Unlock()
				if v != nil {
					return
				}
			}
		}(g)
	}
	close(start)
	finished := core.WaitTimeout(&wg, abort, 60*time.Second)
	mu.Lock()
	v := viol
	mu.Unlock()
	if v != nil {
		return v
	}
	if !finished {
		return core.Violate("C08/wedged", "concurrent phase: handler calls did not return within 60 s")
	}
	now := time.Now()
	for _, r := range reps {
		if v := m.record(r.client, r.ans, now); v != nil {
			v.Message = "concurrent: " + v.Message
			return v
		}
	}
	return nil
}
