//go:build verif

package pd6

import (
	"encoding/binary"
	"fmt"
	"net"

	"pgregory.net/rapid"
	"verif/harness/core"
	"verif/harness/gen"
)

func genDUID(t *rapid.T, i int) string {
	mac := []byte{0x02, 0x00, 0x5e, 0x10, byte(i), byte(rapid.IntRange(0, 255).Draw(t, "mac-last"))}
	switch rapid.IntRange(0, 7).Draw(t, "duid-kind") {
	case 0:
		return gen.H(gen.DUIDLL(1, mac))
	case 1:
		return gen.H(gen.DUIDLLT(1, rapid.Uint32().Draw(t, "llt-time"), mac))
	case 2:
		return gen.H(gen.DUIDEN(uint32(40000+i), []byte{byte(i), 1, 2, 3}))
	case 3:
		var u [16]byte
		u[0], u[15] = byte(i), byte(i)
		return gen.H(gen.DUIDUUID(u))
	case 4:
		return gen.H(gen.DUIDOpaque(uint16(100+i), []byte{byte(i), 0xff}))
	case 5:
		// DUID-LL with an 8-byte link-layer address
		return gen.H(gen.DUIDLL(27, append(mac, 0xaa, byte(i))))
	case 6:
		// same link-layer address for every client, only the hardware type differs (incl. unregistered ones):
		// distinct client identifiers
		return gen.H(gen.DUIDLL([]uint16{0, 0x0100, 36, 0xffff, 1, 6}[i%6], []byte{0x02, 0x00, 0x5e, 0x10, 0xaa, 0xaa}))
	default:
		// same link-layer address as client 0 would have, other DUID kind: distinct client ids
		return gen.H(gen.DUIDLLT([]uint16{1, 0, 0x0100, 40}[i%4], 7, []byte{0x02, 0x00, 0x5e, 0x10, 0, 0}))
	}
}

func genHint(t *rapid.T, mode string, renewBias bool) Hint {
	kinds := []string{"len0", "lenonly", "free", "free", "self", "other", "blk", "blk", "outpool", "toolong", "len0addr", "after", "before"}
	if renewBias {
		kinds = []string{"self", "self", "self", "len0", "free", "blk"}
	}
	h := Hint{Kind: rapid.SampledFrom(kinds).Draw(t, "hint-kind")}
	if rapid.IntRange(0, 3).Draw(t, "hint-lifetimes") == 0 {
		// the lifetime fields of a hint are the client's preference, in any relation to each other
		lt := rapid.SampledFrom([][2]uint32{{1800, 0}, {1800, 900}, {0, 1800}, {900, 1800}, {0xffffffff, 0}, {0xffffffff, 0xffffffff}, {1, 1}, {3600, 7200}}).Draw(t, "lifetimes")
		h.Pref, h.Valid = lt[0], lt[1]
	}
	switch h.Kind {
	case "lenonly":
		h.Len = rapid.IntRange(1, 128).Draw(t, "hint-len")
	case "free", "blk":
		h.K = rapid.Uint64Range(0, 70).Draw(t, "hint-k")
		if rapid.IntRange(0, 3).Draw(t, "hint-extra?") == 0 {
			h.Extra = rapid.IntRange(-8, 16).Draw(t, "hint-extra")
		}
		if rapid.IntRange(0, 4).Draw(t, "hint-inner?") == 0 {
			h.Inner = rapid.Uint64().Draw(t, "hint-inner")
		}
	case "self", "other", "len0addr", "toolong", "after", "before":
		h.K = rapid.Uint64Range(0, 8).Draw(t, "hint-k")
	case "outpool":
		h.Inner = rapid.Uint64Range(0, 4).Draw(t, "hint-inner")
	}
	return h
}

func genIAPD(t *rapid.T, mode string, idx int, renewBias bool) IAPD {
	ia := IAPD{IAID: uint32(idx + 1)}
	if rapid.IntRange(0, 9).Draw(t, "iaid-dup") == 0 {
		ia.IAID = 1
	}
	if rapid.IntRange(0, 19).Draw(t, "iaid-rand") == 0 {
		ia.IAID = rapid.Uint32().Draw(t, "iaid")
	}
	shape := rapid.IntRange(0, 9).Draw(t, "iapd-shape")
	switch {
	case shape <= 2:
		// no IAPrefix at all
	case shape == 3:
		ia.Hints = []Hint{{Kind: "len0"}}
	case shape <= 6:
		ia.Hints = []Hint{genHint(t, mode, renewBias)}
	default:
		n := rapid.IntRange(2, 3).Draw(t, "nhints")
		for i := 0; i < n; i++ {
			ia.Hints = append(ia.Hints, genHint(t, mode, renewBias))
		}
		if rapid.IntRange(0, 2).Draw(t, "multi-new") == 0 {
			// two or three new prefixes asked for in one IA_PD
			for i := range ia.Hints {
				ia.Hints[i] = Hint{Kind: "free", K: uint64(i) + rapid.Uint64Range(0, 3).Draw(t, "free-k")}
			}
		}
	}
	return ia
}

var msgTypes = []uint8{gen.M6Solicit, gen.M6Solicit, gen.M6Request, gen.M6Request, gen.M6Renew, gen.M6Renew, gen.M6Rebind, gen.M6Confirm, gen.M6Release, gen.M6InfoRequest}

func genMsg(t *rapid.T, mode string, nclients int, later bool) Msg {
	m := Msg{Client: rapid.IntRange(0, nclients-1).Draw(t, "client")}
	m.Type = rapid.SampledFrom(msgTypes).Draw(t, "type")
	if m.Type == gen.M6Solicit {
		m.Rapid = rapid.IntRange(0, 3).Draw(t, "rapid") == 0
	}
	if rapid.IntRange(0, 4).Draw(t, "relayed") == 0 {
		m.Relay = rapid.IntRange(1, 2).Draw(t, "relay-depth")
	}
	if later && rapid.IntRange(0, 5).Draw(t, "repeat") == 0 {
		m.Repeat = true
		return m
	}
	if later && rapid.IntRange(0, 11).Draw(t, "age") == 0 {
		return Msg{Age: rapid.SampledFrom([]int{1, 1800, 3599, 3601, 7200, 90000}).Draw(t, "age-s")}
	}
	if later && rapid.IntRange(0, 29).Draw(t, "many-hints") == 0 {
		// one IA_PD with more hints than fit any machine word: renewal shapes only, so that
		// a retransmission must not consume anything
		ia := IAPD{IAID: 1}
		n := rapid.IntRange(65, 70).Draw(t, "nhints-many")
		for i := 0; i < n; i++ {
			ia.Hints = append(ia.Hints, Hint{Kind: "self", K: rapid.Uint64Range(0, 8).Draw(t, "self-k")})
		}
		m.IAPDs = []IAPD{ia}
		return m
	}
	n := rapid.SampledFrom([]int{1, 1, 1, 1, 2, 2, 3, 0}).Draw(t, "niapd")
	for i := 0; i < n; i++ {
		m.IAPDs = append(m.IAPDs, genIAPD(t, mode, i, later && mode == "C09"))
	}
	return m
}

// GenCase draws a pool, clients and a history
func GenCase(mode string) func(t *rapid.T) Case {
	return func(t *rapid.T) Case {
		c := Case{Mode: mode}
		l := rapid.IntRange(32, 120).Draw(t, "poollen")
		if rapid.IntRange(0, 3).Draw(t, "pool-around-64") == 0 {
			l = rapid.IntRange(56, 68).Draw(t, "poollen64")
		}
		k := rapid.SampledFrom([]int{0, 1, 1, 2, 2, 3, 3, 4, 5, 6}).Draw(t, "k")
		if core.Thorough() && rapid.IntRange(0, 20).Draw(t, "bigpool") == 0 {
			k = 10
		}
		if l+k > 128 {
			l = 128 - k
		}
		c.Page = l + k
		ip := make(net.IP, 16)
		binary.BigEndian.PutUint64(ip[:8], rapid.Uint64().Draw(t, "base-hi"))
		binary.BigEndian.PutUint64(ip[8:], rapid.Uint64().Draw(t, "base-lo"))
		if rapid.Bool().Draw(t, "base-doc") {
			copy(ip, net.ParseIP("2001:db8::"))
		}
		if ip[0] == 0 && l >= 96 {
			ip[0] = 0x20 // keep clear of v4-mapped space, which net.ParseCIDR would print as IPv4
		}
		ip = ip.Mask(net.CIDRMask(l, 128))
		if rapid.IntRange(0, 3).Draw(t, "pool-noncanonical") == 0 {
			// the pool written with bits set below its length (net.ParseCIDR accepts that and
			// means the network it lies in): in the block-index bits, below the block size, or both
			for n := rapid.IntRange(1, 3).Draw(t, "stray-bits"); n > 0; n-- {
				bit := rapid.IntRange(l, 127).Draw(t, "stray-bit")
				if rapid.Bool().Draw(t, "stray-in-index") && c.Page > l {
					bit = rapid.IntRange(l, c.Page-1).Draw(t, "stray-index-bit")
				}
				ip[bit/8] |= 0x80 >> uint(bit%8)
			}
		}
		c.Pool = fmt.Sprintf("%s/%d", ip.String(), l)
		nclients := rapid.IntRange(1, 4).Draw(t, "nclients")
		seen := map[string]bool{}
		for i := 0; i < nclients; i++ {
			d := genDUID(t, i)
			if seen[d] {
				d = gen.H(gen.DUIDLL(1, []byte{2, 0, 0x5e, 0x77, byte(i), 9}))
			}
			seen[d] = true
			c.Clients = append(c.Clients, d)
		}
		max := 12
		if core.Thorough() {
			max = 30
		}
		n := rapid.IntRange(1, max).Draw(t, "nmsgs")
		for i := 0; i < n; i++ {
			msg := genMsg(t, mode, nclients, i >= 1)
			c.Msgs = append(c.Msgs, msg)
			if len(msg.IAPDs) == 1 && len(msg.IAPDs[0].Hints) > 64 {
				// and its retransmission
				c.Msgs = append(c.Msgs, Msg{Client: msg.Client, Type: msg.Type, Repeat: true})
			}
		}
		if rapid.IntRange(0, 4).Draw(t, "conc") == 0 {
			g := rapid.IntRange(2, 6).Draw(t, "goroutines")
			// C09: often all goroutines speak for one client (copies of one message taking different
			// paths, a retransmission overtaking the original): everything any of the replies
			// delegates must be remembered
			oneClient := mode == "C09" && rapid.Bool().Draw(t, "one-client")
			for i := 0; i < g; i++ {
				var s []Msg
				nm := rapid.IntRange(1, 6).Draw(t, "conc-n")
				for j := 0; j < nm; j++ {
					m := Msg{Client: i % nclients, Type: rapid.SampledFrom(msgTypes).Draw(t, "type")}
					if rapid.Bool().Draw(t, "own-client") {
						m.Client = rapid.IntRange(0, nclients-1).Draw(t, "client")
					}
					if oneClient {
						m.Client = 0
					}
					nia := rapid.IntRange(1, 2).Draw(t, "niapd")
					for q := 0; q < nia; q++ {
						ia := IAPD{IAID: uint32(q + 1)}
						switch rapid.IntRange(0, 3).Draw(t, "conc-hint") {
						case 0:
							ia.Hints = []Hint{{Kind: "blk", K: rapid.Uint64Range(0, 3).Draw(t, "blk")}}
						case 1:
							ia.Hints = []Hint{{Kind: "len0"}}
						}
						m.IAPDs = append(m.IAPDs, ia)
					}
					s = append(s, m)
				}
				c.Conc = append(c.Conc, s)
			}
		}
		return c
	}
}
