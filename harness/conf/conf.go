// Package conf decides C18 (configuration loading) by rendering structured
// configurations to YAML in many spellings, loading them with config.Load and
// comparing with the structure they were rendered from.
package conf

import (
	"fmt"
	"net"
	"os"
	"path/filepath"
	"strconv"
	"strings"
	"sync"
	"sync/atomic"

	"github.com/coredhcp/coredhcp/config"
	"verif/harness/core"
)

// Item is one listen item: [address][%zone][:port]
type Item struct {
	Addr    string `json:"addr,omitempty"`
	Zone    string `json:"zone,omitempty"`
	Port    string `json:"port,omitempty"`
	HasPort bool   `json:"hasport,omitempty"` // ":" + Port is written (Port may be garbage)
	Bracket bool   `json:"bracket,omitempty"`
}

// Plugin is one plugin entry
type Plugin struct {
	Name string   `json:"name"`
	Args []string `json:"args,omitempty"`
	Sep  string   `json:"sep,omitempty"`
	// Quote: 0 plain when possible, 1 single, 2 double
	Quote int `json:"quote,omitempty"`
	// Extra: a second key in the same item (an item naming several plugins)
	Extra string `json:"extra,omitempty"`
}

// Proto is one protocol section
type Proto struct {
	Present bool `json:"present,omitempty"`
	// ListenMode: absent | scalar | list | interface | both
	ListenMode string `json:"listenmode,omitempty"`
	Items      []Item `json:"items,omitempty"`
	Iface      string `json:"iface,omitempty"`
	// IfaceRaw: if set, the value of the interface key as YAML text: an empty string, a list, a
	// mapping. The key is there, so together with listen the file must be refused; what the key
	// alone means with such a value the property does not say
	IfaceRaw string `json:"ifaceraw,omitempty"`
	// PluginsMode: list | missing | null | empty | scalar | map
	PluginsMode string   `json:"pluginsmode,omitempty"`
	Plugins     []Plugin `json:"plugins,omitempty"`
	// Scalar: if set, the whole section is this YAML value instead of a mapping (a scalar or a
	// list): a section without a plugins list
	Scalar string `json:"scalar,omitempty"`
}

// Mut is one byte mutation of the rendered text
type Mut struct {
	// Kind: truncate | flip | insert | delete | dupline
	Kind string `json:"kind"`
	Pos  int    `json:"pos"`
	Val  byte   `json:"val,omitempty"`
}

// Case is one configuration
type Case struct {
	P4          Proto  `json:"p4"`
	P6          Proto  `json:"p6"`
	Flow        bool   `json:"flow,omitempty"`
	Indent      int    `json:"indent,omitempty"`
	ListenFirst bool   `json:"listenfirst,omitempty"`
	V6First     bool   `json:"v6first,omitempty"`
	Comments    bool   `json:"comments,omitempty"`
	Other       bool   `json:"other,omitempty"` // an unrelated top-level key
	Muts        []Mut  `json:"muts,omitempty"`
	Raw         string `json:"raw,omitempty"` // fuzz: load this text verbatim
}

func (it Item) text(v6 bool) string {
	s := it.Addr
	if it.Zone != "" {
		s += "%" + it.Zone
	}
	// IPv6 literals are always written in brackets, zone inside (the documented form)
	if it.Addr != "" && (strings.Contains(it.Addr, ":") || it.Bracket) {
		s = "[" + s + "]"
	}
	if it.HasPort {
		s += ":" + it.Port
	}
	return s
}

func needsQuote(s string, flow bool) bool {
	if s == "" {
		return true
	}
	if strings.ContainsAny(s, "[]{}#&*!|>'\"@`%\\") || strings.Contains(s, ": ") || strings.HasPrefix(s, ":") || strings.HasPrefix(s, "-") || strings.HasPrefix(s, "?") || strings.HasSuffix(s, ":") {
		return true
	}
	if flow && strings.ContainsAny(s, ",") {
		return true
	}
	if s != strings.TrimSpace(s) {
		return true
	}
	return false
}

func quote(s string, q int, flow bool) string {
	if q == 0 && !needsQuote(s, flow) {
		return s
	}
	if q == 2 {
		return strconv.Quote(s)
	}
	return "'" + strings.ReplaceAll(s, "'", "''") + "'"
}

// Render produces the YAML text
func Render(c *Case) string {
	var sb strings.Builder
	ind := c.Indent
	if ind < 2 {
		ind = 2
	}
	pad := strings.Repeat(" ", ind)
	section := func(name string, p *Proto, v6 bool) {
		if !p.Present {
			return
		}
		if p.Scalar != "" {
			sb.WriteString(name + ": " + p.Scalar + "\n")
			return
		}
		if c.Flow {
			var parts []string
			listen := func() {
				switch p.ListenMode {
				case "scalar":
					if len(p.Items) > 0 {
						parts = append(parts, "listen: "+quote(p.Items[0].text(v6), 1, true))
					}
				case "list", "both":
					var its []string
					for _, it := range p.Items {
						its = append(its, quote(it.text(v6), 1, true))
					}
					parts = append(parts, "listen: ["+strings.Join(its, ", ")+"]")
				}
				if p.ListenMode == "interface" || p.ListenMode == "both" {
					if p.IfaceRaw != "" {
						parts = append(parts, "interface: "+p.IfaceRaw)
					} else {
						parts = append(parts, "interface: "+quote(p.Iface, 0, true))
					}
				}
			}
			plugins := func() {
				switch p.PluginsMode {
				case "list":
					var its []string
					for _, pl := range p.Plugins {
						val := strings.Join(pl.Args, sepOf(pl))
						s := "{" + pl.Name + ": " + quoteVal(val, pl.Quote, true)
						if pl.Extra != "" {
							s += ", " + pl.Extra + ": x"
						}
						its = append(its, s+"}")
					}
					parts = append(parts, "plugins: ["+strings.Join(its, ", ")+"]")
				case "null":
					parts = append(parts, "plugins: null")
				case "empty":
					parts = append(parts, "plugins: []")
				case "scalar":
					parts = append(parts, "plugins: dns")
				case "map":
					parts = append(parts, "plugins: {dns: 8.8.8.8}")
				}
			}
			if c.ListenFirst {
				listen()
				plugins()
			} else {
				plugins()
				listen()
			}
			sb.WriteString(name + ": {" + strings.Join(parts, ", ") + "}\n")
			return
		}
		sb.WriteString(name + ":\n")
		if c.Comments {
			sb.WriteString(pad + "# a comment\n")
		}
		listen := func() {
			switch p.ListenMode {
			case "scalar":
				if len(p.Items) > 0 {
					sb.WriteString(pad + "listen: " + quote(p.Items[0].text(v6), 1, false) + "\n")
				}
			case "list", "both":
				sb.WriteString(pad + "listen:\n")
				for i, it := range p.Items {
					q := 1 + i%2
					sb.WriteString(pad + pad + "- " + quote(it.text(v6), q, false) + "\n")
				}
			}
			if p.ListenMode == "interface" || p.ListenMode == "both" {
				if p.IfaceRaw != "" {
					sb.WriteString(pad + "interface: " + p.IfaceRaw + "\n")
				} else {
					sb.WriteString(pad + "interface: " + quote(p.Iface, 0, false) + "\n")
				}
			}
		}
		plugins := func() {
			switch p.PluginsMode {
			case "list":
				sb.WriteString(pad + "plugins:\n")
				for _, pl := range p.Plugins {
					val := strings.Join(pl.Args, sepOf(pl))
					line := pad + pad + "- " + pl.Name + ":"
					if val != "" {
						line += " " + quoteVal(val, pl.Quote, false)
					}
					sb.WriteString(line + "\n")
					if pl.Extra != "" {
						sb.WriteString(pad + pad + "  " + pl.Extra + ": x\n")
					}
					if c.Comments {
						sb.WriteString(pad + pad + "# - commented: out\n\n")
					}
				}
			case "null":
				sb.WriteString(pad + "plugins:\n")
			case "empty":
				sb.WriteString(pad + "plugins: []\n")
			case "scalar":
				sb.WriteString(pad + "plugins: dns\n")
			case "map":
				sb.WriteString(pad + "plugins:\n" + pad + pad + "dns: 8.8.8.8\n")
			}
		}
		if c.ListenFirst {
			listen()
			plugins()
		} else {
			plugins()
			listen()
		}
	}
	if c.Comments {
		sb.WriteString("# CoreDHCP configuration\n\n")
	}
	if c.Other {
		sb.WriteString("logging: info\n")
	}
	if c.V6First {
		section("server6", &c.P6, true)
		section("server4", &c.P4, false)
	} else {
		section("server4", &c.P4, false)
		section("server6", &c.P6, true)
	}
	out := sb.String()
	if c.Flow && out != "" {
		// a flow mapping per top-level key is already valid YAML
	}
	return out
}

func sepOf(pl Plugin) string {
	if pl.Sep == "" {
		return " "
	}
	return pl.Sep
}

func quoteVal(val string, q int, flow bool) string {
	if val == "" {
		return "''"
	}
	// multiple blanks or tabs between arguments survive only inside quotes
	if q == 0 && (strings.Contains(val, "  ") || strings.Contains(val, "\t")) {
		q = 1
	}
	return quote(val, q, flow)
}

// Mutate applies the byte mutations
func Mutate(text string, muts []Mut) string {
	b := []byte(text)
	for _, m := range muts {
		if len(b) == 0 {
			break
		}
		pos := m.Pos % len(b)
		if pos < 0 {
			pos = -pos
		}
		switch m.Kind {
		case "truncate":
			b = b[:pos]
		case "flip":
			b[pos] ^= 1 << (m.Val % 8)
		case "insert":
			b = append(b[:pos], append([]byte{m.Val}, b[pos:]...)...)
		case "delete":
			b = append(b[:pos], b[pos+1:]...)
		case "dupline":
			s := string(b)
			i := strings.LastIndex(s[:pos], "\n") + 1
			j := strings.Index(s[pos:], "\n")
			if j < 0 {
				j = len(s)
			} else {
				j += pos + 1
			}
			b = []byte(s[:j] + s[i:j] + s[j:])
		}
	}
	return string(b)
}

// ---- oracle -------------------------------------------------------------------

type expAddr struct {
	wild bool
	ip   net.IP
	port int
	zone string
}

// ifSnapshot describes the host's interfaces (names and flags) at this instant
func ifSnapshot() string {
	ifs, err := net.Interfaces()
	if err != nil {
		return "error"
	}
	var sb strings.Builder
	for _, i := range ifs {
		fmt.Fprintf(&sb, "%d:%s:%d;", i.Index, i.Name, i.Flags)
	}
	return sb.String()
}

// mcastIfaces is the harness's own scan of the interfaces
func mcastIfaces(v4 bool) []string {
	ifs, err := net.Interfaces()
	if err != nil {
		return nil
	}
	var r []string
	for _, i := range ifs {
		if i.Flags&net.FlagMulticast == 0 {
			continue
		}
		if v4 && i.Flags&net.FlagBroadcast == 0 {
			continue
		}
		r = append(r, i.Name)
	}
	return r
}

// expectProto returns the expected addresses and plugins, or the reason the
// section must be rejected
func expectProto(p *Proto, v6 bool) (addrs []expAddr, reject string) {
	if p.Scalar != "" {
		return nil, "section-not-a-mapping"
	}
	switch p.PluginsMode {
	case "missing", "null", "empty", "scalar", "map":
		return nil, "plugins-" + p.PluginsMode
	}
	if len(p.Plugins) == 0 {
		return nil, "plugins-empty"
	}
	for _, pl := range p.Plugins {
		if pl.Extra != "" {
			return nil, "item-names-several-plugins"
		}
	}
	defPort := 67
	if v6 {
		defPort = 547
	}
	items := p.Items
	switch p.ListenMode {
	case "both":
		return nil, "listen-and-interface"
	case "interface":
		return []expAddr{{wild: true, port: defPort, zone: p.Iface}}, ""
	case "absent", "":
		if !v6 {
			return []expAddr{{wild: true, port: 67}}, ""
		}
		ifs := mcastIfaces(false)
		if len(ifs) == 0 {
			return nil, "no-multicast-interface"
		}
		for _, n := range ifs {
			addrs = append(addrs, expAddr{ip: net.ParseIP("ff02::1:2"), port: 547, zone: n})
		}
		addrs = append(addrs, expAddr{ip: net.ParseIP("ff05::1:3"), port: 547})
		return addrs, ""
	case "scalar":
		if len(items) > 1 {
			items = items[:1]
		}
	}
	for _, it := range items {
		a := expAddr{port: defPort, zone: it.Zone}
		if it.Addr == "" {
			a.wild = true
		} else {
			ip := net.ParseIP(it.Addr)
			if ip == nil {
				return nil, "unparseable-address"
			}
			if v6 == (ip.To4() != nil) {
				return nil, "wrong-family"
			}
			a.ip = ip
		}
		if it.HasPort && it.Port != "" {
			n, err := strconv.Atoi(it.Port)
			if err != nil {
				return nil, "unparseable-port"
			}
			a.port = n
		}
		if a.ip != nil && it.Zone == "" && (a.ip.IsLinkLocalMulticast() || a.ip.IsInterfaceLocalMulticast()) {
			ifs := mcastIfaces(!v6)
			if len(ifs) == 0 {
				return nil, "no-multicast-interface"
			}
			for _, n := range ifs {
				e := a
				e.zone = n
				addrs = append(addrs, e)
			}
			continue
		}
		addrs = append(addrs, a)
	}
	return addrs, ""
}

var (
	scratchOnce sync.Once
	scratchDir  string
	seq         atomic.Int64
)

func scratch() string {
	scratchOnce.Do(func() {
		for _, base := range []string{"/dev/shm", os.Getenv("VERIF_WORK"), os.TempDir()} {
			if base == "" {
				continue
			}
			if d, err := os.MkdirTemp(base, "verif-conf-"); err == nil {
				scratchDir = d
				return
			}
		}
	})
	return scratchDir
}

// Cleanup removes the scratch directory
func Cleanup() {
	if scratchDir != "" {
		os.RemoveAll(scratchDir)
	}
}

func load(text string) (cfg *config.Config, err error, panicked interface{}) {
	p := filepath.Join(scratch(), fmt.Sprintf("c-%d.yml", seq.Add(1)))
	if e := os.WriteFile(p, []byte(text), 0o644); e != nil {
		return nil, e, nil
	}
	defer os.Remove(p)
	defer func() {
		if r := recover(); r != nil {
			core.HarnessPanic(r)
			panicked = r
		}
	}()
	cfg, err = config.Load(p)
	return
}

func cmpProto(name string, got *config.ServerConfig, p *Proto, addrs []expAddr, text string) *core.Violation {
	if got == nil {
		return core.Violate("C18/section-lost", "%s is configured but Load returned no %s section\n%s", name, name, text)
	}
	if len(got.Plugins) != len(p.Plugins) {
		return core.Violate("C18/plugins-differ", "%s: %d plugins loaded, %d listed\n%s", name, len(got.Plugins), len(p.Plugins), text)
	}
	for i, pl := range p.Plugins {
		g := got.Plugins[i]
		if g.Name != pl.Name {
			return core.Violate("C18/plugins-differ", "%s: plugin #%d is %q, file order says %q\n%s", name, i, g.Name, pl.Name, text)
		}
		if strings.Join(g.Args, "\x00") != strings.Join(pl.Args, "\x00") {
			return core.Violate("C18/plugin-args-differ", "%s: plugin %q has arguments %q, listed %q\n%s", name, pl.Name, g.Args, pl.Args, text)
		}
	}
	if len(got.Addresses) != len(addrs) {
		return core.Violate("C18/listen-differs", "%s: %d listen addresses loaded (%v), expected %d\n%s", name, len(got.Addresses), got.Addresses, len(addrs), text)
	}
	for i, a := range addrs {
		g := got.Addresses[i]
		if a.wild {
			if g.IP != nil && !g.IP.IsUnspecified() {
				return core.Violate("C18/listen-differs", "%s: listen #%d has address %v, expected the wildcard\n%s", name, i, g.IP, text)
			}
			if g.IP != nil && (name == "server6") != (g.IP.To4() == nil) {
				return core.Violate("C18/listen-differs", "%s: listen #%d wildcard %v is of the wrong family\n%s", name, i, g.IP, text)
			}
		} else if !g.IP.Equal(a.ip) {
			return core.Violate("C18/listen-differs", "%s: listen #%d has address %v, expected %v\n%s", name, i, g.IP, a.ip, text)
		}
		if g.Port != a.port {
			return core.Violate("C18/listen-port-differs", "%s: listen #%d has port %d, expected %d\n%s", name, i, g.Port, a.port, text)
		}
		if g.Zone != a.zone {
			return core.Violate("C18/listen-zone-differs", "%s: listen #%d has zone %q, expected %q\n%s", name, i, g.Zone, a.zone, text)
		}
	}
	return nil
}

// Exec loads one configuration
func Exec(c Case) (res core.Result) {
	if c.Raw != "" {
		_, _, pan := load(c.Raw)
		if pan != nil {
			res.Viol = core.Violate("C18/panic", "config.Load panicked: %v\ntext: %q", pan, c.Raw)
		}
		res.Classes = []string{"raw"}
		return
	}
	text := Render(&c)
	if len(c.Muts) > 0 {
		mt := Mutate(text, c.Muts)
		_, _, pan := load(mt)
		if pan != nil {
			res.Viol = core.Violate("C18/panic", "config.Load panicked: %v\ntext: %q", pan, mt)
		}
		res.Classes = []string{"mutated"}
		res.NonTrivial = mt != text
		return
	}
	for _, p := range []*Proto{&c.P4, &c.P6} {
		if p.Present && p.Scalar == "" && p.ListenMode == "interface" && p.IfaceRaw != "" {
			// the deprecated key alone, with a value that is not an interface name: undefined, but no panic
			_, _, pan := load(text)
			if pan != nil {
				res.Viol = core.Violate("C18/panic", "config.Load panicked: %v\n%s", pan, text)
			}
			res.Classes = []string{"interface-key-with-odd-value"}
			return
		}
	}
	var a4, a6 []expAddr
	reject := ""
	// the expansion of multicast listen addresses depends on the host's interfaces: if they
	// change while the case runs (somebody creates or removes a link) nothing can be concluded
	ifBefore := ifSnapshot()
	defer func() {
		if ifSnapshot() != ifBefore {
			res = core.Result{Skipped: "host-interfaces-changed"}
		}
	}()
	// the DHCPv6 section is parsed first
	if c.P6.Present {
		a6, reject = expectProto(&c.P6, true)
	}
	if reject == "" && c.P4.Present {
		a4, reject = expectProto(&c.P4, false)
	}
	if reject == "" && !c.P4.Present && !c.P6.Present {
		reject = "no-protocol-section"
	}
	cfg, err, pan := load(text)
	if pan != nil {
		res.Viol = core.Violate("C18/panic", "config.Load panicked: %v\n%s", pan, text)
		return
	}
	if reject != "" {
		res.Classes = []string{"rejected:" + reject}
		res.NonTrivial = true
		if err == nil {
			res.Viol = core.Violate("C18/accepted-invalid/"+reject, "configuration must be rejected (%s) but was loaded\n%s", reject, text)
		}
		return
	}
	if err != nil {
		res.Viol = core.Violate("C18/rejected-valid", "valid configuration rejected: %v\n%s", err, text)
		return
	}
	if (cfg.Server4 != nil) != c.P4.Present || (cfg.Server6 != nil) != c.P6.Present {
		res.Viol = core.Violate("C18/section-lost", "sections present: v4 %v v6 %v; loaded: v4 %v v6 %v\n%s", c.P4.Present, c.P6.Present, cfg.Server4 != nil, cfg.Server6 != nil, text)
		return
	}
	nplug, nlisten := 0, 0
	if c.P4.Present {
		if v := cmpProto("server4", cfg.Server4, &c.P4, a4, text); v != nil {
			res.Viol = v
			return
		}
		nplug += len(c.P4.Plugins)
		if c.P4.ListenMode == "scalar" || c.P4.ListenMode == "list" {
			nlisten += len(c.P4.Items)
		}
	}
	if c.P6.Present {
		if v := cmpProto("server6", cfg.Server6, &c.P6, a6, text); v != nil {
			res.Viol = v
			return
		}
		nplug += len(c.P6.Plugins)
		if c.P6.ListenMode == "scalar" || c.P6.ListenMode == "list" {
			nlisten += len(c.P6.Items)
		}
	}
	res.Classes = []string{"accepted"}
	if c.Flow {
		res.Classes = append(res.Classes, "flow-style")
	}
	res.NonTrivial = nplug >= 2 || nlisten >= 1
	return
}
