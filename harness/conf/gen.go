package conf

import (
	"strings"

	"pgregory.net/rapid"
)

var zones = []string{"", "", "", "eth0", "lo", "enp0s31f6", "nonexistent0", "br-lan.100"}

// garbageZoned are items with more than one '%': whatever precedes the last '%' is not an address
var garbageZoned = []string{"192.0.2.1%eth0", "%a", "fe80::1%", "2001:db8::1%eth0"}

var good4 = []string{"10.0.0.1", "192.0.2.1", "0.0.0.0", "255.255.255.255", "127.0.0.1", "224.0.0.1", "224.0.0.252", "239.1.2.3", "::ffff:10.0.0.1"}
var good6 = []string{"::", "::1", "2001:db8::1", "fe80::1", "ff02::1:2", "ff05::1:3", "ff01::1", "ff02::fb", "2001:DB8:0:0:0:0:0:1", "fd00::10.0.0.1"}
var garbageAddr = []string{"abc", "10.0.0", "300.1.1.1", "10.0.0.1.5", "localhost", "2001:db8:::1", "12345::1", "g::1", "10.0.0.1/24"}
var garbagePort = []string{"abc", "67x", "0x43", "6 7", "99999999999999999999", "1e3"}

func genItem(t *rapid.T, v6 bool) Item {
	var it Item
	k := rapid.IntRange(0, 19).Draw(t, "item-kind")
	good, other := good4, good6
	if v6 {
		good, other = good6, good4[:8]
	}
	switch {
	case k <= 2:
		// wildcard: no address
	case k <= 14:
		it.Addr = rapid.SampledFrom(good).Draw(t, "addr")
	case k <= 16:
		it.Addr = rapid.SampledFrom(other).Draw(t, "addr-wrongfam")
	default:
		it.Addr = rapid.SampledFrom(garbageAddr).Draw(t, "addr-garbage")
		if rapid.IntRange(0, 2).Draw(t, "double-percent") == 0 {
			it.Addr = rapid.SampledFrom(garbageZoned).Draw(t, "addr-zoned")
		}
	}
	it.Zone = rapid.SampledFrom(zones).Draw(t, "zone")
	if strings.Contains(it.Addr, "%") && it.Zone == "" {
		it.Zone = "eth1" // address%zone%zone
	}
	switch rapid.IntRange(0, 9).Draw(t, "port-kind") {
	case 0, 1, 2, 3:
	case 4:
		it.HasPort = true // "addr:" - empty port means default
	case 5:
		it.HasPort, it.Port = true, rapid.SampledFrom(garbagePort).Draw(t, "port-garbage")
	default:
		it.HasPort, it.Port = true, rapid.SampledFrom([]string{"67", "547", "1", "65535", "44480", "6767", "0", "00", "068"}).Draw(t, "port")
	}
	if it.Addr != "" && rapid.IntRange(0, 4).Draw(t, "bracket") == 0 {
		it.Bracket = true
	}
	return it
}

var pluginNames = []string{"dns", "server_id", "file", "range", "router", "netmask", "lease_time", "prefix", "nbp", "mtu", "sleep", "staticroute", "searchdomains", "myplugin", "x", "plugin2"}
var argTokens = []string{"8.8.8.8", "8.8.4.4", "2001:4860:4860::8888", "10.0.0.0/24,10.0.0.1", "2001:db8::/48", "64", "3600s", "1h30m", "LL", "00:de:ad:be:ef:00", "leases.txt", "/var/lib/coredhcp/leases.sqlite3",
	"http://[2001:db8:a::1]/nbp", "tftp://10.0.0.1/boot.img", "autorefresh", "1500", "0", "65535", "example.com", "a.b.c", "255.255.255.0", "10.10.10.100", "10.10.10.200", "60s", "x=y", "a,b", "k:v", "#notacomment", "it's", "say\"hi\"",
	// arguments are taken literally: a '$' is a character like any other (boot URLs carry variables the client expands)
	"http://10.0.0.254/boot.ipxe?mac=${mac}", "tftp://10.0.0.1/images/$arch/pxelinux.0", "$HOME/leases.txt", "${PATH}", "a$", "$$", "~/leases.txt"}

func genPlugin(t *rapid.T) Plugin {
	p := Plugin{Name: rapid.SampledFrom(pluginNames).Draw(t, "plugin-name")}
	n := rapid.SampledFrom([]int{0, 1, 1, 2, 2, 3, 4}).Draw(t, "nargs")
	for i := 0; i < n; i++ {
		p.Args = append(p.Args, rapid.SampledFrom(argTokens).Draw(t, "arg"))
	}
	// a single argument that is a MAC or looks numeric in another base is always quoted by real users; a lone
	// token that YAML would resolve to a non-string non-integer is not in the vocabulary
	p.Sep = rapid.SampledFrom([]string{" ", " ", "  ", "\t", " \t "}).Draw(t, "argsep")
	p.Quote = rapid.IntRange(0, 2).Draw(t, "quote")
	if len(p.Args) == 1 && p.Args[0] == "00:de:ad:be:ef:00" && p.Quote == 0 {
		p.Quote = 1
	}
	return p
}

func genProto(t *rapid.T, v6 bool, allowBad bool) Proto {
	p := Proto{Present: true}
	p.ListenMode = rapid.SampledFrom([]string{"absent", "absent", "scalar", "scalar", "list", "list", "list", "interface"}).Draw(t, "listenmode")
	if allowBad && rapid.IntRange(0, 14).Draw(t, "both") == 0 {
		p.ListenMode = "both"
	}
	switch p.ListenMode {
	case "scalar":
		it := genItem(t, v6)
		if it.Addr == "" && it.Zone == "" && !it.HasPort {
			// an empty scalar is an empty listen list, which the property does not define
			it.HasPort, it.Port = true, "67"
		}
		p.Items = []Item{it}
	case "list", "both":
		n := rapid.IntRange(1, 4).Draw(t, "nitems")
		for i := 0; i < n; i++ {
			p.Items = append(p.Items, genItem(t, v6))
		}
	}
	if p.ListenMode == "interface" || p.ListenMode == "both" {
		p.Iface = rapid.SampledFrom([]string{"eth0", "lo", "enp3s0", "wlan0"}).Draw(t, "iface")
		if allowBad && rapid.IntRange(0, 3).Draw(t, "iface-odd") == 0 {
			p.IfaceRaw = rapid.SampledFrom([]string{"''", "\"\"", "[eth0]", "[eth0, eth1]", "{name: eth0}", "' '"}).Draw(t, "iface-raw")
		}
	}
	if !allowBad {
		// keep only well-formed items of the right family
		for i := range p.Items {
			it := &p.Items[i]
			ok := false
			for _, g := range map[bool][]string{false: good4, true: good6}[v6] {
				if it.Addr == g {
					ok = true
				}
			}
			if !ok {
				it.Addr = ""
			}
			for _, g := range garbagePort {
				if it.Port == g {
					it.Port = "67"
				}
			}
		}
	}
	if p.ListenMode == "scalar" {
		if it := &p.Items[0]; it.Addr == "" && it.Zone == "" && !it.HasPort {
			it.HasPort, it.Port = true, "67"
		}
	}
	p.PluginsMode = "list"
	if allowBad {
		p.PluginsMode = rapid.SampledFrom([]string{"list", "list", "list", "list", "list", "list", "list", "list", "list", "list", "missing", "null", "empty", "scalar", "map"}).Draw(t, "pluginsmode")
	}
	if allowBad && rapid.IntRange(0, 24).Draw(t, "section-scalar") == 0 {
		// the section key is there, but its value is not a mapping (null would mean "not present")
		p.Scalar = rapid.SampledFrom([]string{"enabled", "67", "true", "[]", "[dns, router]", "''", "0", "\"yes\"", "[{plugins: []}]"}).Draw(t, "scalar")
	}
	if p.PluginsMode == "missing" && p.ListenMode == "absent" {
		// an empty section is a null value, which means "section not present"
		p.ListenMode, p.Iface = "interface", "eth0"
	}
	n := rapid.IntRange(1, 5).Draw(t, "nplugins")
	for i := 0; i < n; i++ {
		p.Plugins = append(p.Plugins, genPlugin(t))
	}
	if allowBad && rapid.IntRange(0, 14).Draw(t, "twokeys") == 0 {
		p.Plugins[rapid.IntRange(0, n-1).Draw(t, "twokeys-at")].Extra = "second"
	}
	return p
}

// GenCase draws a structured configuration (no mutations)
func GenCase(t *rapid.T) Case {
	var c Case
	allowBad := rapid.IntRange(0, 2).Draw(t, "allowbad") > 0
	which := rapid.IntRange(0, 9).Draw(t, "sections")
	if which != 0 && which <= 6 {
		c.P4 = genProto(t, false, allowBad)
	}
	if which != 0 && which >= 4 {
		c.P6 = genProto(t, true, allowBad)
	}
	c.Flow = rapid.IntRange(0, 3).Draw(t, "flow") == 0
	c.Indent = rapid.SampledFrom([]int{2, 4, 3, 8}).Draw(t, "indent")
	c.ListenFirst = rapid.Bool().Draw(t, "listenfirst")
	c.V6First = rapid.Bool().Draw(t, "v6first")
	c.Comments = rapid.IntRange(0, 2).Draw(t, "comments") == 0
	c.Other = rapid.IntRange(0, 3).Draw(t, "other") == 0
	return c
}

// GenMutated draws a valid rendering plus byte mutations
func GenMutated(t *rapid.T) Case {
	c := GenCase(t)
	n := rapid.IntRange(1, 4).Draw(t, "nmuts")
	for i := 0; i < n; i++ {
		m := Mut{Kind: rapid.SampledFrom([]string{"truncate", "flip", "flip", "insert", "insert", "delete", "dupline"}).Draw(t, "mut-kind"), Pos: rapid.IntRange(0, 4000).Draw(t, "mut-pos")}
		m.Val = rapid.SampledFrom([]byte{0, 1, 7, '\t', ' ', ':', '-', '[', ']', '{', '}', '&', '*', '!', '|', '>', '\'', '"', '%', '@', '`', '#', '\n', '\r', 0x80, 0xff, 'a', '~', '?', ','}).Draw(t, "mut-val")
		c.Muts = append(c.Muts, m)
	}
	return c
}
