package conf

import (
	"os"
	"testing"

	"verif/harness/core"
)

func TestMain(m *testing.M) {
	rc := m.Run()
	Cleanup()
	os.Exit(rc)
}

func TestC18(t *testing.T)        { core.Run(t, "C18", GenCase, Exec) }
func TestC18Mutated(t *testing.T) { core.Run(t, "C18", GenMutated, Exec) }

func FuzzConfigLoad(f *testing.F) {
	core.Quiet()
	f.Add("server4:\n  plugins:\n    - dns: 8.8.8.8\n")
	f.Add("server6:\n  listen:\n    - '[ff02::1:2%eth0]:547'\n  plugins:\n    - server_id: LL 00:de:ad:be:ef:00\n")
	f.Add("{server4: {listen: ['10.0.0.1', ':68'], plugins: [{a: b c}, {d: 'e  f'}]}}\n")
	f.Add("server4:\n  interface: eth0\n  listen: '%eth0'\n  plugins: [{a: &x b}, {c: *x}]\n")
	f.Fuzz(func(t *testing.T, text string) {
		if len(text) == 0 {
			return
		}
		r := Exec(Case{Raw: text})
		if r.Viol != nil {
			t.Fatalf("VIOLATION-DETAIL property=C18 signature=%s: %s", r.Viol.Signature, r.Viol.Message)
		}
	})
}
