//go:build verif

package opts

import (
	"bytes"
	"encoding/binary"
	"fmt"
	"net"
	"net/url"
	"os"
	"path/filepath"
	"strconv"
	"strings"
	"sync/atomic"
	"time"

	"github.com/coredhcp/coredhcp/config"
	"github.com/coredhcp/coredhcp/handler"
	"github.com/coredhcp/coredhcp/plugins"
	"github.com/insomniacslk/dhcp/dhcpv4"
	"github.com/insomniacslk/dhcp/dhcpv6"
	"pgregory.net/rapid"
	"verif/harness/core"
	"verif/harness/gen"
	"verif/harness/plug"
)

// OptCase is one (plugin, accepted arguments, request, stub) combination
type OptCase struct {
	Plugin string   `json:"plugin"`
	V6     bool     `json:"v6,omitempty"`
	Args   []string `json:"args"`
	// request
	MsgType uint8 `json:"msgtype"`
	// PRL: nil = no parameter request list (v4) / no ORO (v6)
	HasPRL bool     `json:"hasprl,omitempty"`
	PRL    []uint16 `json:"prl,omitempty"`
	Has116 bool     `json:"has116,omitempty"`
	Relay  int      `json:"relay,omitempty"`
	// stub
	YIAddr string `json:"yiaddr,omitempty"`
	// Pre: the stub already carries the plugin's option with another value (PreHex; default 01020304)
	Pre    bool   `json:"pre,omitempty"`
	PreHex string `json:"prehex,omitempty"`
	// Others: option codes that other option plugins, listed earlier in the chain, have already put
	// into the reply (with plausible values): they are none of this plugin's business
	Others []int `json:"others,omitempty"`
	// ViaFile: the plugin is configured the way an operator does it: a configuration file is
	// written, read with config.Load, and plugins.LoadPlugins builds the handler
	ViaFile bool `json:"viafile,omitempty"`
}

var relevant4 = []uint16{1, 3, 6, 26, 51, 66, 67, 108, 116, 119, 121}
var filler4 = []uint16{2, 12, 15, 28, 42, 43, 60, 252}
var relevant6 = []uint16{23, 24, 59, 60}
var filler6 = []uint16{21, 22, 31, 39, 56}

func genIPv4(t *rapid.T, label string) string {
	return net.IPv4(byte(rapid.IntRange(1, 223).Draw(t, label+"a")), rapid.Byte().Draw(t, label+"b"), rapid.Byte().Draw(t, label+"c"), rapid.Byte().Draw(t, label+"d")).String()
}

func genIPv6(t *rapid.T, label string) string {
	ip := make(net.IP, 16)
	copy(ip, net.ParseIP("2001:db8::"))
	binary.BigEndian.PutUint64(ip[8:], rapid.Uint64().Draw(t, label))
	if rapid.IntRange(0, 3).Draw(t, label+"hi") == 0 {
		binary.BigEndian.PutUint32(ip[4:], rapid.Uint32().Draw(t, label+"mid"))
	}
	return ip.String()
}

func genLabel(t *rapid.T, max int) string {
	n := rapid.IntRange(1, max).Draw(t, "label-len")
	if rapid.IntRange(0, 5).Draw(t, "label-63") == 0 && max >= 63 {
		n = 63
	}
	const alpha = "abcdefghijklmnopqrstuvwxyz0123456789"
	b := make([]byte, n)
	for i := range b {
		b[i] = alpha[rapid.IntRange(0, len(alpha)-1).Draw(t, "label-ch")]
	}
	if n > 2 && rapid.Bool().Draw(t, "label-hyphen") {
		b[n/2] = '-'
	}
	return string(b)
}

var c17FileSeq atomic.Int64

// viaFile configures the plugin of the case through a configuration file: config.Load reads it and
// plugins.LoadPlugins sets the plugin up; the handler returned is the single entry of the chain
func viaFile(c *OptCase) (handler.Handler4, handler.Handler6, error) {
	registerBuiltins()
	sec, listen := "server4", "127.0.0.1:6767"
	if c.V6 {
		sec, listen = "server6", "[::1]:5470"
	}
	val := ""
	if len(c.Args) > 0 {
		val = " '" + strings.ReplaceAll(strings.Join(c.Args, " "), "'", "''") + "'"
	}
	text := fmt.Sprintf("%s:\n  listen: '%s'\n  plugins:\n    - %s:%s\n", sec, listen, c.Plugin, val)
	path := filepath.Join(c19Scratch(), fmt.Sprintf("c17-%d.yml", c17FileSeq.Add(1)))
	if err := os.WriteFile(path, []byte(text), 0o644); err != nil {
		return nil, nil, err
	}
	defer os.Remove(path)
	conf, err := config.Load(path)
	if err != nil {
		return nil, nil, fmt.Errorf("config.Load: %w\n%s", err, text)
	}
	l4, l6, err := plugins.LoadPlugins(conf)
	if err != nil {
		return nil, nil, err
	}
	if c.V6 {
		if len(l6) != 1 {
			return nil, nil, fmt.Errorf("LoadPlugins returned %d DHCPv6 handlers for one plugin", len(l6))
		}
		return nil, l6[0], nil
	}
	if len(l4) != 1 {
		return nil, nil, fmt.Errorf("LoadPlugins returned %d DHCPv4 handlers for one plugin", len(l4))
	}
	return l4[0], nil, nil
}

// optionalSpelling: the argument vector uses a spelling the plugin may accept or refuse (a search
// domain with its trailing dot)
func optionalSpelling(c *OptCase) bool {
	if c.Plugin != "searchdomains" {
		return false
	}
	for _, a := range c.Args {
		if strings.HasSuffix(a, ".") {
			return true
		}
	}
	return false
}

// plainNames is the list of names the arguments denote
func plainNames(args []string) []string {
	var r []string
	for _, a := range args {
		r = append(r, strings.TrimSuffix(a, "."))
	}
	return r
}

func genDomain(t *rapid.T) string {
	n := rapid.IntRange(1, 4).Draw(t, "nlabels")
	var ls []string
	total := 0
	for i := 0; i < n; i++ {
		l := genLabel(t, 20)
		if rapid.IntRange(0, 9).Draw(t, "long-label") == 0 {
			l = genLabel(t, 63)
		}
		if total+len(l)+1 > 120 {
			break
		}
		total += len(l) + 1
		ls = append(ls, l)
	}
	if len(ls) == 0 {
		ls = []string{"example"}
	}
	return strings.Join(ls, ".")
}

var nbpURLs = []string{
	"http://10.0.0.1/nbp", "https://boot.example.com/ipxe.efi", "ftp://10.0.0.1/boot/pxelinux.0",
	"tftp://10.0.0.1/boot.img", "tftp://boot.example.com/dir/file", "http://[2001:db8:a::1]/nbp",
	"http://[2001:db8:a::1]/nbp?params=a%20b", "tftp://[2001:db8::5]/f?params=console%3DttyS0", "https://h.example/x?params=one",
	"//tftphost/path/to/file", "/just/a/path", "tftp://10.1.2.3:6969/x",
	// variables the client expands (iPXE): a '$' is a character like any other
	"http://10.0.0.254/boot.ipxe?mac=${mac}", "tftp://10.0.0.1/images/$arch/pxelinux.0", "http://boot.example/$HOME/x?params=${PATH}",
}

// genArgs draws an argument vector the plugin documents as valid
func genArgs(t *rapid.T, plugin string, v6 bool) []string {
	switch plugin {
	case "netmask":
		l := rapid.IntRange(1, 32).Draw(t, "masklen")
		m := net.CIDRMask(l, 32)
		s := net.IP(m).String()
		if rapid.IntRange(0, 4).Draw(t, "mapped") == 0 {
			s = "::ffff:" + s
		}
		return []string{s}
	case "router", "dns":
		n := rapid.IntRange(1, 4).Draw(t, "naddr")
		var a []string
		for i := 0; i < n; i++ {
			if v6 {
				a = append(a, genIPv6(t, "addr"))
			} else {
				a = append(a, genIPv4(t, "addr"))
			}
		}
		return a
	case "mtu":
		v := strconv.Itoa(rapid.SampledFrom([]int{0, 68, 576, 1280, 1400, 1500, 9000, 65535, rapid.IntRange(0, 65535).Draw(t, "mtu")}).Draw(t, "mtu-pick"))
		// the argument is a decimal integer: leading zeros and an explicit sign do not change it
		return []string{rapid.SampledFrom([]string{"", "", "", "", "0", "00", "+", "+0"}).Draw(t, "mtu-spelling") + v}
	case "searchdomains":
		n := rapid.IntRange(1, 4).Draw(t, "ndomains")
		var a []string
		total := 0
		for i := 0; i < n; i++ {
			d := genDomain(t)
			if total+len(d)+2 > 250 {
				break
			}
			total += len(d) + 2
			a = append(a, d)
		}
		if len(a) == 0 {
			a = []string{"example.com"}
		}
		if rapid.IntRange(0, 7).Draw(t, "rooted") == 0 {
			// the fully-qualified spelling of resolv.conf and zone files. Whether it is accepted is the
			// plugin's choice; if it is, the name is the same name (the root label is the terminator)
			i := rapid.IntRange(0, len(a)-1).Draw(t, "rooted-which")
			a[i] += "."
		}
		return a
	case "staticroute":
		n := rapid.IntRange(1, 4).Draw(t, "nroutes")
		var a []string
		for i := 0; i < n; i++ {
			l := rapid.IntRange(0, 32).Draw(t, "routelen")
			a = append(a, fmt.Sprintf("%s/%d,%s", genIPv4(t, "dest"), l, genIPv4(t, "gw")))
		}
		return a
	case "lease_time":
		return []string{rapid.SampledFrom([]string{"3600s", "1h", "90s", "1m30s", "0s", "24h", "1s", "4294967295s", "1500ms"}).Draw(t, "lease")}
	case "ipv6only":
		if rapid.IntRange(0, 2).Draw(t, "noarg") == 0 {
			return nil
		}
		return []string{rapid.SampledFrom([]string{"0s", "300s", "30m", "1800s", "1h"}).Draw(t, "wait")}
	case "autoconfigure":
		return rapid.SampledFrom([][]string{nil, {"0"}, {"1"}, {"DoNotAutoConfigure"}, {"AutoConfigure"}}).Draw(t, "ac")
	case "nbp":
		return []string{rapid.SampledFrom(nbpURLs).Draw(t, "url")}
	case "sleep":
		return []string{rapid.SampledFrom([]string{"0s", "1ms", "100us"}).Draw(t, "sleep")}
	}
	return nil
}

var optPlugins4 = []string{"netmask", "router", "dns", "mtu", "searchdomains", "staticroute", "lease_time", "ipv6only", "autoconfigure", "nbp", "sleep"}
var optPlugins6 = []string{"dns", "searchdomains", "nbp", "sleep"}

// GenOpt draws one case
func GenOpt(t *rapid.T) OptCase {
	var c OptCase
	c.V6 = rapid.IntRange(0, 3).Draw(t, "v6") == 0
	if c.V6 {
		c.Plugin = rapid.SampledFrom(optPlugins6).Draw(t, "plugin")
		c.MsgType = rapid.SampledFrom([]uint8{gen.M6Solicit, gen.M6Request, gen.M6Renew, gen.M6InfoRequest, gen.M6Rebind}).Draw(t, "msgtype")
		c.Relay = rapid.SampledFrom([]int{0, 0, 0, 1, 2}).Draw(t, "relay")
	} else {
		c.Plugin = rapid.SampledFrom(optPlugins4).Draw(t, "plugin")
		c.MsgType = rapid.SampledFrom([]uint8{1, 1, 3}).Draw(t, "msgtype")
		c.Has116 = rapid.IntRange(0, 2).Draw(t, "has116") == 0
		if rapid.Bool().Draw(t, "yiaddr") {
			c.YIAddr = genIPv4(t, "yi")
		}
	}
	c.Args = genArgs(t, c.Plugin, c.V6)
	c.ViaFile = rapid.IntRange(0, 5).Draw(t, "via-file") == 0
	c.HasPRL = rapid.IntRange(0, 3).Draw(t, "hasprl") > 0
	if c.HasPRL {
		rel, fil := relevant4, filler4
		if c.V6 {
			rel, fil = relevant6, filler6
		}
		// a subset of the relevant codes plus filler, shuffled, never empty, no duplicates
		var l []uint16
		for _, code := range rel {
			if rapid.IntRange(0, 2).Draw(t, "prl-rel") == 0 {
				l = append(l, code)
			}
		}
		for _, code := range fil {
			if rapid.IntRange(0, 3).Draw(t, "prl-fil") == 0 {
				l = append(l, code)
			}
		}
		if len(l) == 0 {
			// a list that is present and empty explicitly lists nothing. It is generated where the
			// statement is unambiguous about it (options sent unconditionally, and the two plugins
			// that answer only clients that explicitly list / send something); for the
			// "only when requested, or when the DHCPv4 list is absent" plugins a zero-length
			// option 55 is malformed (RFC 2132: minimum length 1) and either reading is defensible
			switch {
			case !c.V6 && c.Plugin != "dns" && c.Plugin != "mtu" && c.Plugin != "nbp" && rapid.Bool().Draw(t, "prl-empty"):
			default:
				l = []uint16{fil[0]}
			}
		}
		perm := rapid.Permutation(l).Draw(t, "prl-order")
		c.PRL = perm
	}
	if !c.V6 && rapid.IntRange(0, 2).Draw(t, "others") == 0 {
		own := map[uint8]bool{}
		for _, code := range plugOptionCodes4(c.Plugin) {
			own[code] = true
		}
		for _, code := range []int{1, 3, 6, 15, 26, 51, 66, 67, 119, 121} {
			if !own[uint8(code)] && rapid.IntRange(0, 2).Draw(t, "other-opt") == 0 {
				c.Others = append(c.Others, code)
			}
		}
	}
	c.Pre = rapid.IntRange(0, 3).Draw(t, "pre") == 0
	if c.Pre && !c.V6 {
		// boundary values an earlier plugin may legitimately have set: zero, all ones, a single byte
		c.PreHex = rapid.SampledFrom([]string{"01020304", "00000000", "ffffffff", "00", "0000000000000000"}).Draw(t, "prehex")
	}
	return c
}

func (c *OptCase) requested(code uint16) bool {
	for _, x := range c.PRL {
		if x == code {
			return true
		}
	}
	return false
}

func encodeNames(names []string) []byte {
	var b []byte
	for _, n := range names {
		for _, l := range strings.Split(n, ".") {
			b = append(b, byte(len(l)))
			b = append(b, l...)
		}
		b = append(b, 0)
	}
	return b
}

func be16(v uint16) []byte { return []byte{byte(v >> 8), byte(v)} }
func be32(v uint32) []byte { return []byte{byte(v >> 24), byte(v >> 16), byte(v >> 8), byte(v)} }

// expect4 describes what the plugin must do to a DHCPv4 stub
type expect4 struct {
	set     map[uint8][]byte // option code -> exact data that must be present afterwards
	names   map[uint8][]string
	drop    bool // (nil, stop)
	stop    bool
	anyStop bool // the statement does not say whether the chain continues
}

func expected4(c *OptCase, stubType dhcpv4.MessageType, stubHas map[uint8]bool) (e expect4, err error) {
	e.set, e.names = map[uint8][]byte{}, map[uint8][]string{}
	want := func(code uint16) bool { return !c.HasPRL || c.requested(code) }
	switch c.Plugin {
	case "netmask":
		e.set[1] = net.ParseIP(c.Args[0]).To4()
	case "router":
		var b []byte
		for _, a := range c.Args {
			b = append(b, net.ParseIP(a).To4()...)
		}
		e.set[3] = b
	case "dns":
		if want(6) {
			var b []byte
			for _, a := range c.Args {
				b = append(b, net.ParseIP(a).To4()...)
			}
			e.set[6] = b
		}
	case "mtu":
		if want(26) {
			v, _ := strconv.Atoi(c.Args[0])
			e.set[26] = be16(uint16(v))
		}
	case "searchdomains":
		e.names[119] = plainNames(c.Args)
	case "staticroute":
		var b []byte
		for _, a := range c.Args {
			f := strings.Split(a, ",")
			_, n, perr := net.ParseCIDR(f[0])
			if perr != nil {
				return e, perr
			}
			ones, _ := n.Mask.Size()
			b = append(b, byte(ones))
			b = append(b, n.IP.To4()[:(ones+7)/8]...)
			b = append(b, net.ParseIP(f[1]).To4()...)
		}
		e.set[121] = b
	case "lease_time":
		if !stubHas[51] {
			d, _ := time.ParseDuration(c.Args[0])
			e.set[51] = be32(uint32(d / time.Second))
		}
	case "ipv6only":
		if c.HasPRL && c.requested(108) {
			var d time.Duration
			if len(c.Args) > 0 {
				d, _ = time.ParseDuration(c.Args[0])
			}
			e.set[108] = be32(uint32(d / time.Second))
			e.stop = true
		}
	case "autoconfigure":
		if stubType == dhcpv4.MessageTypeOffer && c.YIAddr == "" {
			if c.Has116 {
				v := byte(0)
				if len(c.Args) > 0 && (c.Args[0] == "1" || c.Args[0] == "AutoConfigure") {
					v = 1
				}
				e.set[116] = []byte{v}
			} else {
				e.drop, e.stop = true, true
			}
		}
	case "nbp":
		e.anyStop = true
		u, perr := url.Parse(c.Args[0])
		if perr != nil {
			return e, perr
		}
		switch u.Scheme {
		case "http", "https", "ftp":
			if want(67) {
				e.set[67] = []byte(c.Args[0])
			}
		default:
			if want(66) {
				e.set[66] = []byte(u.Host)
			}
			if want(67) {
				e.set[67] = []byte(u.Path)
			}
		}
	case "sleep":
	}
	return e, nil
}

// nbpHeaderCarriers checks siaddr / sname / file of a reply the nbp plugin touched: unchanged, or
// the configured boot server / boot file; the fields are then blanked in both images
func nbpHeaderCarriers(c *OptCase, before, after []byte) *core.Violation {
	u, err := url.Parse(c.Args[0])
	if err != nil {
		return nil
	}
	server, file := u.Host, u.Path
	switch u.Scheme {
	case "http", "https", "ftp":
		server, file = "", c.Args[0]
	}
	text := func(b []byte) string {
		if i := bytes.IndexByte(b, 0); i >= 0 {
			b = b[:i]
		}
		return string(b)
	}
	for _, f := range []struct {
		name     string
		lo, hi   int
		want     string
		alsoHost string
	}{{"sname", 44, 108, server, u.Hostname()}, {"file", 108, 236, file, ""}} {
		if !bytes.Equal(before[f.lo:f.hi], after[f.lo:f.hi]) {
			got := text(after[f.lo:f.hi])
			if got != f.want && (f.alsoHost == "" || got != f.alsoHost) {
				return core.Violate("C17/nbp/header-carrier-wrong-value", "args %q: the reply's %s field was set to %q, the configured value is %q", c.Args, f.name, got, f.want)
			}
		}
		for i := f.lo; i < f.hi; i++ {
			before[i], after[i] = 0, 0
		}
	}
	if !bytes.Equal(before[20:24], after[20:24]) {
		ip := net.ParseIP(u.Hostname()).To4()
		if ip == nil || !bytes.Equal(after[20:24], ip) {
			return core.Violate("C17/nbp/header-carrier-wrong-value", "args %q: the reply's siaddr was set to %v, the configured boot server is %q", c.Args, net.IP(after[20:24]), u.Hostname())
		}
		copy(after[20:24], before[20:24])
	}
	return nil
}

func plugOptionCodes4(plugin string) []uint8 {
	switch plugin {
	case "netmask":
		return []uint8{1}
	case "router":
		return []uint8{3}
	case "dns":
		return []uint8{6}
	case "mtu":
		return []uint8{26}
	case "searchdomains":
		return []uint8{119}
	case "staticroute":
		return []uint8{121}
	case "lease_time":
		return []uint8{51}
	case "ipv6only":
		return []uint8{108}
	case "autoconfigure":
		return []uint8{116}
	case "nbp":
		return []uint8{66, 67}
	}
	return nil
}

// ExecOpt runs one case
func ExecOpt(c OptCase) (res core.Result) {
	defer func() {
		if r := recover(); r != nil {
			core.HarnessPanic(r)
			res = core.Result{Viol: core.Violate("C17/"+c.Plugin+"/panic", "%s handler panicked on an accepted configuration: %v", c.Plugin, r)}
		}
	}()
	res.NonTrivial = true
	prlClass := "prl:absent"
	if c.HasPRL {
		prlClass = "prl:present"
	}
	fam := "v4"
	if c.V6 {
		fam = "v6"
	}
	res.Classes = []string{c.Plugin + "/" + fam, prlClass}
	plug.Reset()
	p := plug.ByName(c.Plugin)
	if p == nil {
		res.Skipped = "bad-case"
		return
	}
	if c.V6 {
		return execOpt6(c, res)
	}
	var h handler.Handler4
	var err error
	if c.ViaFile {
		h, _, err = viaFile(&c)
		res.Classes = append(res.Classes, "via-config-file")
	} else {
		h, err = p.Setup4(c.Args...)
	}
	if err != nil && optionalSpelling(&c) {
		res.Classes = append(res.Classes, "optional-spelling-refused")
		return
	}
	if err != nil || h == nil {
		res.Viol = core.Violate("C17/"+c.Plugin+"/setup-rejects-valid-args", "Setup4(%q): %v", c.Args, err)
		return
	}
	pk := gen.Pkt4{Op: 1, HType: 1, HLen: 6, Xid: 0x5150, CHAddr: "02000000aa01"}
	pk.Opts = append(pk.Opts, gen.Opt4{Code: 53, Hex: gen.H([]byte{c.MsgType})})
	if c.HasPRL {
		var b []byte
		for _, x := range c.PRL {
			b = append(b, byte(x))
		}
		pk.Opts = append(pk.Opts, gen.Opt4{Code: 55, Hex: gen.H(b)})
	}
	if c.Has116 {
		pk.Opts = append(pk.Opts, gen.Opt4{Code: 116, Hex: "01"})
	}
	req, stub, ok := gen.Stub4(pk.Bytes())
	if !ok {
		res.Skipped = "bad-case"
		return
	}
	if c.YIAddr != "" {
		stub.YourIPAddr = net.ParseIP(c.YIAddr).To4()
	}
	if c.Pre {
		// an earlier plugin already set this plugin's option(s) to something else
		for _, code := range plugOptionCodes4(c.Plugin) {
			pre := []byte{1, 2, 3, 4}
			if c.PreHex != "" {
				pre = gen.UnH(c.PreHex)
			}
			stub.Options.Update(dhcpv4.OptGeneric(dhcpv4.GenericOptionCode(code), pre))
		}
	}
	for _, code := range c.Others {
		val := map[int]string{1: "ffffff00", 3: "0a0a0a01", 6: "0808080808080404", 15: "6578616d706c65", 26: "05dc", 51: "00000e10",
			66: "746674702e6578616d706c65", 67: "626f6f742e696d67", 119: "076578616d706c6503636f6d00", 121: "180a14140a0a0a01"}[code]
		stub.Options.Update(dhcpv4.OptGeneric(dhcpv4.GenericOptionCode(uint8(code)), gen.UnH(val)))
	}
	before := stub.ToBytes()
	btl, _ := gen.Options4(before)
	bdata, _ := gen.Merged4(btl)
	has := map[uint8]bool{}
	for k := range bdata {
		has[k] = true
	}
	e, err := expected4(&c, stub.MessageType(), has)
	if err != nil {
		res.Skipped = "bad-case"
		return
	}
	out, stop := h(req, stub)
	if e.drop {
		if out != nil || !stop {
			res.Viol = core.Violate("C17/"+c.Plugin+"/not-dropped", "args %q: an address-less OFFER for a client without option 116 must be dropped, got (%v, stop=%v)", c.Args, out != nil, stop)
		}
		return
	}
	if out == nil {
		res.Viol = core.Violate("C17/"+c.Plugin+"/dropped-wrongly", "args %q, request list %v (present=%v): handler returned nil", c.Args, c.PRL, c.HasPRL)
		return
	}
	if !e.anyStop && stop != e.stop {
		res.Viol = core.Violate("C17/"+c.Plugin+"/wrong-stop", "args %q, request list %v (present=%v): stop=%v, want %v", c.Args, c.PRL, c.HasPRL, stop, e.stop)
		return
	}
	after := out.ToBytes()
	hb, ha := append([]byte(nil), before[:240]...), append([]byte(nil), after[:240]...)
	if c.Plugin == "nbp" {
		// the BOOTP header has carriers of its own for the boot server and file (siaddr, sname, file).
		// The statement speaks about options; if the plugin fills a carrier as well, it must be with
		// the configured value, and nothing is demanded beyond that
		if v := nbpHeaderCarriers(&c, hb, ha); v != nil {
			res.Viol = v
			return
		}
	}
	if !bytes.Equal(hb, ha) {
		res.Viol = core.Violate("C17/"+c.Plugin+"/header-changed", "the plugin changed header fields of the reply")
		return
	}
	atl, okp := gen.Options4(after)
	if !okp {
		res.Viol = core.Violate("C17/"+c.Plugin+"/reply-malformed", "reply options do not parse")
		return
	}
	adata, acnt := gen.Merged4(atl)
	// expected option map = before, updated with e.set / e.names
	wantData := map[uint8][]byte{}
	for k, v := range bdata {
		wantData[k] = v
	}
	for k, v := range e.set {
		wantData[k] = v
	}
	for code, names := range e.names {
		got, present := adata[code]
		if !present {
			res.Viol = core.Violate("C17/"+c.Plugin+"/option-missing", "args %q: option %d missing from the reply", c.Args, code)
			return
		}
		dec, okd := gen.DecodeNames(got)
		if !okd || strings.Join(dec, " ") != strings.Join(names, " ") {
			res.Viol = core.Violate("C17/"+c.Plugin+"/wrong-value", "args %q: option %d decodes to %q (ok=%v)", c.Args, code, dec, okd)
			return
		}
		wantData[code] = got
	}
	for code, w := range wantData {
		g, present := adata[code]
		if !present {
			res.Viol = core.Violate("C17/"+c.Plugin+"/option-missing", "args %q, request list %v (present=%v), stub had it=%v: option %d missing from the reply", c.Args, c.PRL, c.HasPRL, has[code], code)
			return
		}
		if !bytes.Equal(g, w) {
			res.Viol = core.Violate("C17/"+c.Plugin+"/wrong-value", "args %q, request list %v (present=%v): option %d = %x, want %x", c.Args, c.PRL, c.HasPRL, code, g, w)
			return
		}
		if len(w) <= 255 && acnt[code] != 1 {
			res.Viol = core.Violate("C17/"+c.Plugin+"/option-repeated", "option %d appears %d times", code, acnt[code])
			return
		}
	}
	for code := range adata {
		if _, w := wantData[code]; !w {
			res.Viol = core.Violate("C17/"+c.Plugin+"/option-not-entitled", "args %q, request list %v (present=%v), option116=%v: reply carries option %d = %x the client is not entitled to", c.Args, c.PRL, c.HasPRL, c.Has116, code, adata[code])
			return
		}
	}
	return
}

func execOpt6(c OptCase, res core.Result) core.Result {
	p := plug.ByName(c.Plugin)
	var h handler.Handler6
	var err error
	if c.ViaFile {
		_, h, err = viaFile(&c)
		res.Classes = append(res.Classes, "via-config-file")
	} else {
		h, err = p.Setup6(c.Args...)
	}
	if err != nil && optionalSpelling(&c) {
		res.Classes = append(res.Classes, "optional-spelling-refused")
		return res
	}
	if err != nil || h == nil {
		res.Viol = core.Violate("C17/"+c.Plugin+"/setup-rejects-valid-args", "Setup6(%q): %v", c.Args, err)
		return res
	}
	opts := [][]byte{gen.Opt6(gen.O6ClientID, gen.DUIDLL(1, []byte{2, 0, 0, 0, 0xbb, 1})), gen.Opt6(gen.O6ElapsedTime, []byte{0, 0})}
	if c.MsgType != gen.M6Solicit && c.MsgType != gen.M6InfoRequest && c.MsgType != gen.M6Rebind {
		opts = append(opts, gen.Opt6(gen.O6ServerID, gen.DUIDLL(1, []byte{0, 0xde, 0xad, 0xbe, 0xef, 0})))
	}
	if c.HasPRL {
		opts = append(opts, gen.ORO6(c.PRL...))
	}
	opts = append(opts, gen.IANA6([4]byte{0, 0, 0, 1}, 0, 0))
	wire := gen.Msg6(c.MsgType, 0x616263, opts...)
	for i := 0; i < c.Relay; i++ {
		// an ORO in the relay layer is not the client's
		wire = gen.Relay6(gen.M6RelayForw, uint8(i), net.ParseIP("2001:db8::1"), net.ParseIP("fe80::9"), wire, false, gen.ORO6(23, 24, 59, 60))
	}
	req, _, stub, ok := gen.Stub6(wire)
	if !ok {
		res.Skipped = "bad-case"
		return res
	}
	sm := stub.(*dhcpv6.Message)
	code := map[string]uint16{"dns": 23, "searchdomains": 24, "nbp": 59}[c.Plugin]
	if c.Pre && code != 0 {
		sm.AddOption(&dhcpv6.OptionGeneric{OptionCode: dhcpv6.OptionCode(code), OptionData: []byte{0, 1, 'x', 0}})
		if c.Plugin == "dns" {
			sm.Options.Del(dhcpv6.OptionCode(code))
			sm.AddOption(dhcpv6.OptDNS(net.ParseIP("2001:db8::ffff")))
		}
	}
	before, _ := gen.Options6(sm.ToBytes()[4:])
	out, stop := h(req, stub)
	if out == nil {
		res.Viol = core.Violate("C17/"+c.Plugin+"/dropped-wrongly", "v6 args %q: handler returned nil", c.Args)
		return res
	}
	om, okm := out.(*dhcpv6.Message)
	if !okm {
		res.Viol = core.Violate("C17/"+c.Plugin+"/reply-malformed", "v6 reply is not a message")
		return res
	}
	raw := om.ToBytes()
	if raw[0] != sm.ToBytes()[0] || !bytes.Equal(raw[1:4], []byte{0x61, 0x62, 0x63}) {
		res.Viol = core.Violate("C17/"+c.Plugin+"/header-changed", "the plugin changed type or transaction id of the reply")
		return res
	}
	after, okp := gen.Options6(raw[4:])
	if !okp {
		res.Viol = core.Violate("C17/"+c.Plugin+"/reply-malformed", "v6 reply options do not parse")
		return res
	}
	// expected list: before, with "update" (replace first or append) / "add" semantics
	want := append([]gen.TLV6(nil), before...)
	update := func(code uint16, data []byte) {
		for i := range want {
			if want[i].Code == code {
				want[i].Data = data
				return
			}
		}
		want = append(want, gen.TLV6{Code: code, Data: data})
	}
	namesAt := -1
	switch c.Plugin {
	case "dns":
		if c.HasPRL && c.requested(23) {
			var b []byte
			for _, a := range c.Args {
				b = append(b, net.ParseIP(a).To16()...)
			}
			update(23, b)
		}
	case "searchdomains":
		update(24, nil)
		for i := range want {
			if want[i].Code == 24 {
				namesAt = i
			}
		}
	case "nbp":
		if c.HasPRL && c.requested(59) {
			if c.Pre {
				// the statement says "once": an existing value is not what this plugin configured
				update(59, []byte(c.Args[0]))
			} else {
				want = append(want, gen.TLV6{Code: 59, Data: []byte(c.Args[0])})
			}
		}
		u, _ := url.Parse(c.Args[0])
		if params := u.Query().Get("params"); params != "" && c.HasPRL && c.requested(60) {
			want = append(want, gen.TLV6{Code: 60, Data: []byte(params)})
		}
	}
	_ = stop
	if c.Plugin == "nbp" {
		// order of 59/60 follows the request list and "pre" handling is unspecified: compare as multisets keyed by code
		if v := compareByCode6(c, want, after); v != nil {
			res.Viol = v
		}
		return res
	}
	if len(want) != len(after) {
		res.Viol = core.Violate("C17/"+c.Plugin+"/wrong-options", "v6 args %q, ORO %v (present=%v): reply has option codes %v, want %v", c.Args, c.PRL, c.HasPRL, codes6(after), codes6(want))
		return res
	}
	for i := range want {
		if want[i].Code != after[i].Code {
			res.Viol = core.Violate("C17/"+c.Plugin+"/wrong-options", "v6 args %q, ORO %v (present=%v): reply has option codes %v, want %v", c.Args, c.PRL, c.HasPRL, codes6(after), codes6(want))
			return res
		}
		if i == namesAt {
			dec, okd := gen.DecodeNames(after[i].Data)
			if !okd || strings.Join(dec, " ") != strings.Join(plainNames(c.Args), " ") {
				res.Viol = core.Violate("C17/"+c.Plugin+"/wrong-value", "v6 args %q: option 24 decodes to %q (ok=%v)", c.Args, dec, okd)
				return res
			}
			continue
		}
		if !bytes.Equal(want[i].Data, after[i].Data) {
			res.Viol = core.Violate("C17/"+c.Plugin+"/wrong-value", "v6 args %q, ORO %v: option %d = %x, want %x", c.Args, c.PRL, want[i].Code, after[i].Data, want[i].Data)
			return res
		}
	}
	return res
}

func codes6(l []gen.TLV6) []uint16 {
	var r []uint16
	for _, x := range l {
		r = append(r, x.Code)
	}
	return r
}

func compareByCode6(c OptCase, want, got []gen.TLV6) *core.Violation {
	group := func(l []gen.TLV6) map[uint16][][]byte {
		m := map[uint16][][]byte{}
		for _, x := range l {
			m[x.Code] = append(m[x.Code], x.Data)
		}
		return m
	}
	w, g := group(want), group(got)
	for code, wl := range w {
		gl := g[code]
		if code == 59 && c.Pre {
			// stub already carried a boot file URL: the plugin's own value must be there, exactly once
			n := 0
			for _, d := range gl {
				if bytes.Equal(d, []byte(c.Args[0])) {
					n++
				}
			}
			if c.HasPRL && c.requested(59) && n != 1 {
				return core.Violate("C17/nbp/wrong-value", "v6 args %q: configured boot file URL appears %d times in the reply", c.Args, n)
			}
			continue
		}
		if len(gl) != len(wl) {
			return core.Violate("C17/nbp/wrong-options", "v6 args %q, ORO %v (present=%v): option %d appears %d times, want %d", c.Args, c.PRL, c.HasPRL, code, len(gl), len(wl))
		}
		for i := range wl {
			if code == 60 {
				// RFC 5970 section 3.2: each parameter is preceded by its 16-bit length
				enc := append(be16(uint16(len(wl[i]))), wl[i]...)
				if !bytes.Equal(gl[i], enc) {
					return core.Violate("C17/nbp/wrong-encoding-option60", "v6 args %q: option 60 = %x, want %x (RFC 5970 encoding of %q)", c.Args, gl[i], enc, wl[i])
				}
				continue
			}
			if !bytes.Equal(gl[i], wl[i]) {
				return core.Violate("C17/nbp/wrong-value", "v6 args %q: option %d = %x, want %x", c.Args, code, gl[i], wl[i])
			}
		}
	}
	for code := range g {
		if _, ok := w[code]; !ok {
			return core.Violate("C17/nbp/option-not-entitled", "v6 args %q, ORO %v (present=%v): reply carries option %d the client did not ask for", c.Args, c.PRL, c.HasPRL, code)
		}
	}
	return nil
}
