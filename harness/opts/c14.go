//go:build verif

// Package opts decides C14 (server identifier), C17 (option plugins) and C19
// (an accepted configuration cannot crash or corrupt replies) by calling the
// handlers obtained from each Plugin.Setup4/Setup6 directly.
package opts

import (
	"bytes"
	"fmt"
	"net"
	"strings"

	"github.com/coredhcp/coredhcp/plugins/serverid"
	"github.com/insomniacslk/dhcp/dhcpv4"
	"github.com/insomniacslk/dhcp/dhcpv6"
	"pgregory.net/rapid"
	"verif/harness/core"
	"verif/harness/gen"
)

// SidCase is one row of the server-identifier table
type SidCase struct {
	V6 bool `json:"v6"`
	// v6: server_id arguments
	TypeArg string `json:"typearg,omitempty"`
	MACArg  string `json:"macarg,omitempty"`
	// request
	MsgType uint8 `json:"msgtype"`
	// Rel: absent | equal | otherkind | othermac | longer | shorter | en | uuid | opaque
	Rel     string `json:"rel"`
	Relay   int    `json:"relay,omitempty"`
	StubSID bool   `json:"stubsid,omitempty"` // the stub already carries a foreign server id
	// v4
	Arg    string `json:"arg,omitempty"`    // server_id argument
	SIAddr string `json:"siaddr,omitempty"` // zero | own | other
	Opt54  string `json:"opt54,omitempty"`  // absent | zero | own | other
}

var sidTypeArgs = []string{"LL", "ll", "duid-ll", "DUID-LL", "duid_ll", "Duid_LL", "LLT", "llt", "duid-llt", "duid_llt", "DUID_LLT"}

func macSpellings(b []byte) []string {
	hexs := make([]string, len(b))
	for i, x := range b {
		hexs[i] = fmt.Sprintf("%02x", x)
	}
	out := []string{strings.Join(hexs, ":"), strings.Join(hexs, "-"), strings.ToUpper(strings.Join(hexs, ":"))}
	if len(b)%2 == 0 {
		var q []string
		for i := 0; i < len(b); i += 2 {
			q = append(q, hexs[i]+hexs[i+1])
		}
		out = append(out, strings.Join(q, "."))
	}
	return out
}

// GenSid draws one row
func GenSid(t *rapid.T) SidCase {
	var c SidCase
	c.V6 = rapid.IntRange(0, 3).Draw(t, "v6") > 0
	if c.V6 {
		c.TypeArg = rapid.SampledFrom(sidTypeArgs).Draw(t, "typearg")
		n := rapid.SampledFrom([]int{6, 6, 6, 8, 20}).Draw(t, "maclen")
		mac := rapid.SliceOfN(rapid.Byte(), n, n).Draw(t, "mac")
		c.MACArg = rapid.SampledFrom(macSpellings(mac)).Draw(t, "macspelling")
		if rapid.IntRange(0, 2).Draw(t, "anytype") == 0 {
			c.MsgType = rapid.Byte().Draw(t, "msgtype-any")
		} else {
			c.MsgType = rapid.SampledFrom([]uint8{1, 3, 4, 5, 6, 8, 9, 11, 2, 7, 10}).Draw(t, "msgtype")
		}
		c.Rel = rapid.SampledFrom([]string{"absent", "absent", "equal", "equal", "otherkind", "othermac", "longer", "shorter", "en", "uuid", "opaque"}).Draw(t, "rel")
		c.Relay = rapid.SampledFrom([]int{0, 0, 1, 2}).Draw(t, "relay")
		c.StubSID = rapid.IntRange(0, 4).Draw(t, "stubsid") == 0
		return c
	}
	ip := net.IPv4(byte(rapid.IntRange(1, 223).Draw(t, "a")), rapid.Byte().Draw(t, "b"), rapid.Byte().Draw(t, "c"), byte(rapid.IntRange(1, 254).Draw(t, "d")))
	c.Arg = ip.String()
	if rapid.IntRange(0, 3).Draw(t, "mapped") == 0 {
		c.Arg = "::ffff:" + ip.String()
	}
	c.MsgType = rapid.SampledFrom([]uint8{1, 3}).Draw(t, "msgtype")
	c.SIAddr = rapid.SampledFrom([]string{"zero", "zero", "own", "other"}).Draw(t, "siaddr")
	c.Opt54 = rapid.SampledFrom([]string{"absent", "absent", "zero", "own", "other", "other"}).Draw(t, "opt54")
	return c
}

// EnumSid enumerates the whole v6 matrix type x relation x depth for one
// argument pair, and the whole v4 table
func EnumSid() []SidCase {
	var out []SidCase
	rels := []string{"absent", "equal", "otherkind", "othermac", "longer", "shorter", "en", "uuid", "opaque"}
	for _, ta := range []string{"LL", "llt"} {
		for mt := 0; mt < 256; mt++ {
			for _, rel := range rels {
				for depth := 0; depth <= 2; depth++ {
					out = append(out, SidCase{V6: true, TypeArg: ta, MACArg: "00:de:ad:be:ef:00", MsgType: uint8(mt), Rel: rel, Relay: depth})
				}
			}
		}
	}
	for _, mt := range []uint8{1, 3} {
		for _, si := range []string{"zero", "own", "other"} {
			for _, o := range []string{"absent", "zero", "own", "other"} {
				out = append(out, SidCase{Arg: "10.10.10.1", MsgType: mt, SIAddr: si, Opt54: o})
			}
		}
	}
	return out
}

// ownDUID encodes the configured DUID independently of the plugin
func ownDUID(typeArg string, mac []byte) []byte {
	switch strings.ToLower(typeArg) {
	case "ll", "duid-ll", "duid_ll":
		return gen.DUIDLL(1, mac)
	default:
		return gen.DUIDLLT(1, 0, mac)
	}
}

// ExecSid runs one row
func ExecSid(c SidCase) (res core.Result) {
	defer func() {
		if r := recover(); r != nil {
			core.HarnessPanic(r)
			res = core.Result{Viol: core.Violate("C14/panic", "server_id handler panicked: %v", r)}
		}
	}()
	res.NonTrivial = true
	if c.V6 {
		return execSid6(c)
	}
	return execSid4(c)
}

func execSid6(c SidCase) (res core.Result) {
	res.NonTrivial = true
	mac, err := net.ParseMAC(c.MACArg)
	if err != nil {
		res.Skipped = "bad-case"
		return
	}
	h, err := serverid.Plugin.Setup6(c.TypeArg, c.MACArg)
	if err != nil {
		res.Viol = core.Violate("C14/v6/setup-rejects-valid-args", "Setup6(%q, %q): %v", c.TypeArg, c.MACArg, err)
		return
	}
	own := ownDUID(c.TypeArg, mac)
	var sid []byte
	otherMAC := append([]byte(nil), mac...)
	otherMAC[len(otherMAC)-1] ^= 0x01
	switch c.Rel {
	case "equal":
		sid = own
	case "otherkind":
		if own[1] == 3 {
			sid = gen.DUIDLLT(1, 0, mac)
		} else {
			sid = gen.DUIDLL(1, mac)
		}
	case "othermac":
		sid = ownDUID(c.TypeArg, otherMAC)
	case "longer":
		sid = append(append([]byte(nil), own...), 0x00)
	case "shorter":
		sid = own[:len(own)-1]
	case "en":
		sid = gen.DUIDEN(32473, mac)
	case "uuid":
		var u [16]byte
		copy(u[:], mac)
		sid = gen.DUIDUUID(u)
	case "opaque":
		sid = gen.DUIDOpaque(0x4242, mac)
	}
	clientID := gen.DUIDLL(1, []byte{2, 0, 0, 0, 0, 1})
	opts := [][]byte{gen.Opt6(gen.O6ClientID, clientID)}
	if sid != nil {
		opts = append(opts, gen.Opt6(gen.O6ServerID, sid))
	}
	opts = append(opts, gen.Opt6(gen.O6ElapsedTime, []byte{0, 0}))
	wire := gen.Msg6(c.MsgType, 0xabcdef, opts...)
	for i := 0; i < c.Relay; i++ {
		// a server id in the relay layer is not the client's: it must be ignored
		wire = gen.Relay6(gen.M6RelayForw, uint8(i), net.ParseIP("2001:db8::1"), net.ParseIP("fe80::2"), wire, false,
			gen.Opt6(gen.O6ServerID, gen.DUIDLL(1, []byte{9, 9, 9, 9, 9, byte(i)})))
	}
	req, err := dhcpv6.FromBytes(wire)
	if err != nil {
		res.Classes = []string{"v6", "unparseable"}
		res.NonTrivial = false
		return
	}
	inner, err := req.GetInnerMessage()
	if err != nil {
		res.NonTrivial = false
		return
	}
	_, _, stub, ok := gen.Stub6(wire)
	if !ok {
		// the server itself would not answer this type; the handler is still a
		// function of (request, response): give it a plain Reply
		stub = &dhcpv6.Message{MessageType: dhcpv6.MessageTypeReply, TransactionID: inner.TransactionID}
		stub.AddOption(inner.GetOneOption(dhcpv6.OptionClientID))
	}
	if c.StubSID {
		stub.AddOption(dhcpv6.OptServerID(&dhcpv6.DUIDLL{HWType: 1, LinkLayerAddr: net.HardwareAddr{1, 1, 1, 1, 1, 1}}))
	}
	out, stop := h(req, stub)

	present := sid != nil
	mt := c.MsgType
	drop := false
	why := ""
	switch {
	case present && (mt == gen.M6Solicit || mt == gen.M6Confirm || mt == gen.M6Rebind):
		drop, why = true, "a SOLICIT/CONFIRM/REBIND carrying a Server Identifier"
	case present && !bytes.Equal(sid, own):
		drop, why = true, "a Server Identifier that differs from this server's"
	case !present && (mt == gen.M6Request || mt == gen.M6Renew || mt == gen.M6Decline || mt == gen.M6Release):
		drop, why = true, "a REQUEST/RENEW/DECLINE/RELEASE without Server Identifier"
	}
	res.Classes = []string{"v6", "rel:" + c.Rel, fmt.Sprintf("drop:%v", drop)}
	if drop {
		if out != nil || !stop {
			res.Viol = core.Violate("C14/v6/not-discarded", "type %d, server-id %s (%x) vs own %x: %s must be discarded, handler returned (%v, stop=%v)", mt, c.Rel, sid, own, why, out != nil, stop)
		}
		return
	}
	if out == nil || stop {
		res.Viol = core.Violate("C14/v6/discarded-wrongly", "type %d, server-id %s (%x), own %x: must be answered, handler returned (nil=%v, stop=%v)", mt, c.Rel, sid, own, out == nil, stop)
		return
	}
	// exactly one server id in the reply, byte-equal to the configured DUID
	raw := out.ToBytes()
	tlvs, ok6 := gen.Options6(raw[4:])
	if !ok6 {
		res.Viol = core.Violate("C14/v6/reply-malformed", "reply options do not parse")
		return
	}
	n := 0
	for _, tl := range tlvs {
		if tl.Code == gen.O6ServerID {
			n++
			if !bytes.Equal(tl.Data, own) {
				res.Viol = core.Violate("C14/v6/wrong-server-id", "reply carries server id %x, configured %s %s = %x", tl.Data, c.TypeArg, c.MACArg, own)
				return
			}
		}
	}
	if n != 1 {
		res.Viol = core.Violate("C14/v6/server-id-count", "reply carries %d server identifiers, want exactly 1", n)
	}
	return
}

func execSid4(c SidCase) (res core.Result) {
	res.NonTrivial = true
	h, err := serverid.Plugin.Setup4(c.Arg)
	if err != nil {
		res.Viol = core.Violate("C14/v4/setup-rejects-valid-args", "Setup4(%q): %v", c.Arg, err)
		return
	}
	own := net.ParseIP(c.Arg).To4()
	other := net.IPv4(own[0], own[1], own[2], own[3]^0x01).To4()
	pick := func(k string) net.IP {
		switch k {
		case "own":
			return own
		case "other":
			return other
		}
		return net.IPv4zero.To4()
	}
	p := gen.Pkt4{Op: 1, HType: 1, HLen: 6, Xid: 0x1234, CHAddr: "020000000001"}
	if c.SIAddr != "zero" {
		p.SIAddr = pick(c.SIAddr).String()
	}
	p.Opts = append(p.Opts, gen.Opt4{Code: 53, Hex: gen.H([]byte{c.MsgType})})
	if c.Opt54 != "absent" {
		p.Opts = append(p.Opts, gen.Opt4{Code: 54, Hex: gen.H(pick(c.Opt54))})
	}
	req, stub, ok := gen.Stub4(p.Bytes())
	if !ok {
		res.Skipped = "bad-case"
		return
	}
	out, stop := h(req, stub)
	drop := c.SIAddr == "other" || c.Opt54 == "other"
	res.Classes = []string{"v4", "siaddr:" + c.SIAddr, "opt54:" + c.Opt54}
	if drop {
		if out != nil || !stop {
			field := "siaddr"
			if c.SIAddr != "other" {
				field = "option54"
			}
			res.Viol = core.Violate("C14/v4/not-discarded/"+field, "request naming another server (siaddr %s, option 54 %s; own %s) must be discarded, handler returned (%v, stop=%v)", c.SIAddr, c.Opt54, own, out != nil, stop)
		}
		return
	}
	if out == nil || stop {
		res.Viol = core.Violate("C14/v4/discarded-wrongly", "request (siaddr %s, option 54 %s; own %s) must be answered, handler returned (nil=%v, stop=%v)", c.SIAddr, c.Opt54, own, out == nil, stop)
		return
	}
	raw := out.ToBytes()
	if !bytes.Equal(raw[20:24], own) {
		res.Viol = core.Violate("C14/v4/wrong-siaddr", "reply siaddr %v, configured %s", net.IP(raw[20:24]), own)
		return
	}
	tlvs, _ := gen.Options4(raw)
	data, cnt := gen.Merged4(tlvs)
	if cnt[54] != 1 || !bytes.Equal(data[54], own) {
		res.Viol = core.Violate("C14/v4/wrong-option54", "reply carries option 54 x%d = %x, configured %s", cnt[54], data[54], own)
	}
	_ = dhcpv4.OptionServerIdentifier
	return
}
