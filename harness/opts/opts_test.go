//go:build verif

package opts

import (
	"os"
	"testing"

	"verif/harness/core"
)

func TestMain(m *testing.M) {
	rc := m.Run()
	Cleanup()
	os.Exit(rc)
}

func TestC14(t *testing.T) {
	core.Quiet()
	if os.Getenv("VERIF_REPLAY") == "" && core.FirstShard() {
		// the whole matrix type x relation x depth (v6) and siaddr x option 54 (v4) for fixed arguments
		c := core.For("C14")
		n := int64(0)
		for _, cs := range EnumSid() {
			n++
			if !core.Direct(t, c, cs, ExecSid(cs)) {
				c.Flush()
				return
			}
		}
		c.MarkExhaustive("v6: 2 argument pairs x 256 message types x 9 server-id relations x relay depth 0..2; v4: 2 types x 3 siaddr x 4 option-54 values", n)
	}
	core.Run(t, "C14", GenSid, ExecSid)
}

func TestC17(t *testing.T) { core.Run(t, "C17", GenOpt, ExecOpt) }
func TestC19(t *testing.T) { core.Run(t, "C19", GenCfg, ExecCfg) }

func TestC17Interleave(t *testing.T) { core.Run(t, "C17", GenInter, ExecInter) }
