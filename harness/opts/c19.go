//go:build verif

package opts

import (
	"bytes"
	"fmt"
	"net"
	"os"
	"path/filepath"
	"runtime"
	"strconv"
	"strings"
	"sync"
	"sync/atomic"
	"syscall"
	"time"

	"github.com/coredhcp/coredhcp/config"
	"github.com/coredhcp/coredhcp/handler"
	"github.com/coredhcp/coredhcp/plugins"
	"github.com/insomniacslk/dhcp/dhcpv4"
	"github.com/insomniacslk/dhcp/dhcpv6"
	"pgregory.net/rapid"
	"verif/harness/core"
	"verif/harness/gen"
	"verif/harness/plug"
)

// CfgCase is one plugin with one argument vector
type CfgCase struct {
	Plugin string   `json:"plugin"`
	V6     bool     `json:"v6,omitempty"`
	Args   []string `json:"args"`
	// ViaLoad: the plugin is listed in the protocol's section of a configuration and set up by
	// plugins.LoadPlugins, as the server does (also under the protocol it does not support), and
	// requests are run through the handler list it returns
	ViaLoad bool `json:"viaload,omitempty"`
}

var registerOnce sync.Once

func registerBuiltins() {
	registerOnce.Do(func() {
		for _, p := range plug.All {
			_ = plugins.RegisterPlugin(p)
		}
	})
}

var (
	c19Once  sync.Once
	c19Dir   string
	c19Seq   atomic.Int64
	c19Opens atomic.Int64
	c19Watch atomic.Int64
)

func c19Scratch() string {
	c19Once.Do(func() {
		for _, base := range []string{"/dev/shm", os.Getenv("VERIF_WORK"), os.TempDir()} {
			if base == "" {
				continue
			}
			if d, err := os.MkdirTemp(base, "verif-opts-"); err == nil {
				c19Dir = d
				os.WriteFile(filepath.Join(d, "leases4.txt"), []byte("00:11:22:33:44:55 10.0.0.5\n02:00:00:00:aa:01 10.0.0.6\n"), 0o644)
				os.WriteFile(filepath.Join(d, "leases6.txt"), []byte("00:11:22:33:44:55 2001:db8::5\n02:00:00:00:bb:01 2001:db8::6\n"), 0o644)
				os.WriteFile(filepath.Join(d, "bad.txt"), []byte("00:11:22:33:44:55\n"), 0o644)
				// IPv6 addresses whose tail is written as a dotted quad, for the battery's static client
				os.WriteFile(filepath.Join(d, "leasesmixed.txt"), []byte("00:11:22:33:44:55 2001:db8::192.0.2.1\n02:00:00:00:aa:01 ::10.0.0.6\n"), 0o644)
				os.Mkdir(filepath.Join(d, "adir"), 0o755)
				return
			}
		}
	})
	return c19Dir
}

// Cleanup removes scratch files
func Cleanup() {
	if c19Dir != "" {
		os.RemoveAll(c19Dir)
	}
}

// token kinds
var (
	tokIPv4     = []string{"10.0.0.1", "192.168.1.1", "0.0.0.0", "255.255.255.255", "255.255.255.0", "255.0.255.0", "8.8.8.8", "224.0.0.1", "1.2.3", "256.1.1.1", "010.1.1.1"}
	tokIPv6     = []string{"2001:db8::1", "::", "::1", "fe80::1", "ff02::1:2", "::ffff:10.0.0.1", "2001:db8::10.0.0.1", "2001:db8:::1", "fe80::1%eth0", "[2001:db8::1]"}
	tokCIDR     = []string{"10.0.0.0/8", "10.20.20.0/24", "0.0.0.0/0", "10.0.0.1/32", "10.0.0.5/24", "2001:db8::/32", "2001:db8::/48", "::/0", "2001:db8::/64", "2001:db8::/127", "::ffff:10.0.0.0/104", "10.0.0.0/33", "10.0.0.0", "2001:db8::/129", "2001:db8:1::/56"}
	tokDur      = []string{"3600s", "1h", "60s", "0s", "1ns", "1500ms", "-5s", "-1h", "1000000h", "2540400h", "5", "1d", "abc", "", "1h30m15.5s", "4294967296s"}
	tokInt      = []string{"0", "1", "64", "56", "128", "129", "1500", "65535", "65536", "-1", "4294967296", "99999999999999999999", "0x10", "1e3", "abc", "", "32", "48", "120"}
	tokURL      = []string{"http://10.0.0.1/nbp", "https://h.example/x?params=a%20b", "ftp://10.0.0.1/f", "tftp://10.0.0.1/boot.img", "http://[2001:db8::1]/nbp", "http://[2001:db8::1", "://bad", "http://h/%zz", "tftp://h/" + strings.Repeat("p", 300), "", "mailto:someone", "http://h/x?params=" + strings.Repeat("q", 70000), "//host/path", "/path", "tftp://" + strings.Repeat("h", 300) + "/f", "http://h/x?params=%00%ff", "http://h/" + strings.Repeat("^", 30000), "tftp://h/" + strings.Repeat("\xc3\xa9", 20000), "http://h/" + strings.Repeat("a", 65500)}
	tokDUIDType = []string{"LL", "ll", "duid-ll", "LLT", "duid_llt", "EN", "uuid", "opaque", "", "llx"}
	tokMAC      = []string{"00:de:ad:be:ef:00", "00-de-ad-be-ef-00", "00de.adbe.ef00", "00:de:ad:be:ef:00:11:22", "00:00:00:00:fe:80:00:00:00:00:00:00:02:00:5e:10:00:00:00:01", "00:de:ad:be:ef", "zz:zz:zz:zz:zz:zz", "", "00:de:ad:be:ef:00:11"}
	tokWord     = []string{"autorefresh", "AutoConfigure", "DoNotAutoConfigure", "0", "1", "2", "true", "x", ""}
)

func labelOf(n int) string { return strings.Repeat("a", n) }

var tokDomain = []string{"example.com", "a.b.c.d.example.org", "x", labelOf(63) + ".com", labelOf(64) + ".com", labelOf(191) + ".com", labelOf(192) + ".com", labelOf(255) + ".com", labelOf(300) + ".com",
	"a..b", ".", "", "example.com.", ".example.com", "ex ample.com", "caf\xc3\xa9.example", strings.Repeat(labelOf(60)+".", 5) + "com", strings.Repeat("abcdefgh.", 40) + "com", "xn--bcher-kva.example", "*.example.com", "a\x00b.example"}

func tokRoutes() []string {
	var r []string
	dests := []string{"10.20.20.0/24", "0.0.0.0/0", "10.0.0.1/32", "2001:db8::/32", "::/0", "::ffff:10.0.0.0/104", "10.0.0.0/33", "10.0.0.0", ""}
	gws := []string{"10.10.10.1", "0.0.0.0", "2001:db8::1", "::ffff:10.0.0.1", "::", "abc", ""}
	for _, d := range dests {
		for _, g := range gws {
			r = append(r, d+","+g)
		}
	}
	return append(r, "10.0.0.0/24", "10.0.0.0/24,10.0.0.1,extra", ",", "10.0.0.0/24;10.0.0.1")
}

var routesTok = tokRoutes()

// file names are symbolic ("@S/x" = x inside the per-process scratch directory,
// "@S/db-NEW.sqlite" = a database file that does not exist yet) so that a saved
// case replays in another process
func fileTokens() []string {
	return []string{"@S/leases4.txt", "@S/leases6.txt", "@S/leasesmixed.txt", "@S/bad.txt", "@S/missing.txt", "@S/adir", "/dev/null", "/proc/self/nonexistent"}
}

func dbTokens() []string {
	return []string{"@S/db-NEW.sqlite", "@S/db-NEW.sqlite", "@S/adir", "@S/missingdir/x.sqlite", "@S/leases4.txt"}
}

func resolveArgs(args []string) []string {
	out := make([]string, len(args))
	for i, a := range args {
		if strings.HasPrefix(a, "@S/") {
			a = filepath.Join(c19Scratch(), a[3:])
			if strings.HasSuffix(a, "db-NEW.sqlite") {
				a = strings.TrimSuffix(a, "NEW.sqlite") + fmt.Sprintf("%d.sqlite", c19Seq.Add(1))
			}
		}
		out[i] = a
	}
	return out
}

// pools of tokens per plugin and position (position beyond the list: any kind)
func specFor(plugin string, v6 bool) [][]string {
	anyAddr := append(append([]string{}, tokIPv4...), tokIPv6...)
	switch plugin {
	case "netmask":
		masks := append([]string{"255.255.0.0", "255.255.255.252", "255.255.255.255", "128.0.0.0", "255.255.254.0", "::ffff:255.255.255.0", "255.255.255.1", "0.255.255.255"}, anyAddr...)
		return [][]string{masks, anyAddr}
	case "router":
		return [][]string{anyAddr, anyAddr, anyAddr, anyAddr}
	case "dns":
		return [][]string{anyAddr, anyAddr, anyAddr, anyAddr}
	case "server_id":
		if v6 {
			return [][]string{tokDUIDType, tokMAC, tokWord}
		}
		return [][]string{anyAddr, anyAddr}
	case "mtu":
		return [][]string{tokInt, tokInt}
	case "lease_time", "ipv6only", "sleep":
		return [][]string{tokDur, tokDur}
	case "autoconfigure":
		return [][]string{tokWord, tokWord}
	case "searchdomains":
		return [][]string{tokDomain, tokDomain, tokDomain, tokDomain}
	case "staticroute":
		return [][]string{routesTok, routesTok, routesTok, routesTok}
	case "nbp":
		return [][]string{tokURL, tokURL}
	case "prefix":
		sizes := append([]string{"33", "40", "50", "58", "60", "64", "66", "72", "127", "128"}, tokInt...)
		return [][]string{tokCIDR, sizes, tokInt}
	case "range":
		near := append([]string{"10.0.0.10", "10.0.0.20", "10.0.0.200", "10.0.1.5", "10.0.0.11", "10.0.0.10", "255.255.255.250", "0.0.0.5", "::ffff:10.0.0.100"}, tokIPv4...)
		return [][]string{dbTokens(), near, near, tokDur, tokWord}
	case "file":
		return [][]string{fileTokens(), tokWord, tokWord}
	}
	return nil
}

var pluginsProto = []struct {
	name string
	v6   bool
}{
	{"autoconfigure", false}, {"dns", false}, {"dns", true}, {"file", false}, {"file", true}, {"ipv6only", false}, {"lease_time", false}, {"mtu", false},
	{"nbp", false}, {"nbp", true}, {"netmask", false}, {"prefix", true}, {"range", false}, {"router", false}, {"searchdomains", false}, {"searchdomains", true},
	{"server_id", false}, {"server_id", true}, {"sleep", false}, {"sleep", true}, {"staticroute", false},
}

// resource bounds of the sandbox, not of the property: huge pools allocate
// gigabytes of bitmap, long sleeps stall the run
func withinBounds(c *CfgCase) bool {
	switch c.Plugin {
	case "sleep":
		// any argument may turn out to be a duration the handler sleeps for
		for _, a := range c.Args {
			switch a {
			case "1000000h", "2540400h", "3600s", "1h", "60s", "1500ms", "1h30m15.5s", "4294967296s":
				return false
			}
		}
	case "prefix":
		if len(c.Args) >= 2 {
			_, n, err := net.ParseCIDR(c.Args[0])
			var sz int
			if _, err2 := fmt.Sscanf(c.Args[1], "%d", &sz); err == nil && err2 == nil {
				ones, _ := n.Mask.Size()
				if sz-ones > 20 {
					return false
				}
			}
		}
	case "range":
		if len(c.Args) >= 3 {
			a, b := net.ParseIP(c.Args[1]).To4(), net.ParseIP(c.Args[2]).To4()
			if a != nil && b != nil {
				ua := uint32(a[0])<<24 | uint32(a[1])<<16 | uint32(a[2])<<8 | uint32(a[3])
				ub := uint32(b[0])<<24 | uint32(b[1])<<16 | uint32(b[2])<<8 | uint32(b[3])
				// the whole address space is let through (a few times per process: 512 MB of bitmap each):
				// its size does not fit in 32 bits
				if ub > ua && ub-ua > 1<<20 && !(ub-ua == 0xffffffff && c19Whole.Add(1) <= 6) {
					return false
				}
			}
		}
	}
	return true
}

// GenCfg draws a plugin and an argument vector of arity 0..4
func GenCfg(t *rapid.T) CfgCase {
	pp := rapid.SampledFrom(pluginsProto).Draw(t, "plugin")
	c := CfgCase{Plugin: pp.name, V6: pp.v6}
	spec := specFor(pp.name, pp.v6)
	arity := rapid.IntRange(0, 4).Draw(t, "arity")
	if rapid.IntRange(0, 2).Draw(t, "natural-arity") > 0 {
		arity = map[string]int{"netmask": 1, "router": 2, "dns": 2, "server_id": 1, "mtu": 1, "lease_time": 1, "ipv6only": 1, "sleep": 1, "autoconfigure": 1,
			"searchdomains": 2, "staticroute": 2, "nbp": 1, "prefix": 2, "range": 4, "file": 1}[pp.name]
		if pp.name == "server_id" && pp.v6 {
			arity = 2
		}
		if pp.name == "file" && rapid.Bool().Draw(t, "file-autorefresh") {
			arity = 2
		}
	}
	for i := 0; i < arity; i++ {
		var pool []string
		if i < len(spec) {
			pool = spec[i]
		} else {
			pool = tokWord
		}
		tok := rapid.SampledFrom(pool).Draw(t, "tok")
		if rapid.IntRange(0, 15).Draw(t, "cross-kind") == 0 {
			all := [][]string{tokIPv4, tokIPv6, tokCIDR, tokDur, tokInt, tokURL, tokDomain, tokWord}
			tok = rapid.SampledFrom(rapid.SampledFrom(all).Draw(t, "cross-pool")).Draw(t, "cross-tok")
		}
		// configuration arguments are whitespace-separated fields: no blanks inside a token, and never empty
		// (an empty token cannot come out of strings.Fields; kept only for direct-API leniency)
		if strings.ContainsAny(tok, " \t\n") {
			tok = strings.ReplaceAll(strings.ReplaceAll(tok, " ", "_"), "\t", "_")
		}
		c.Args = append(c.Args, tok)
	}
	if rapid.IntRange(0, 5).Draw(t, "via-load") == 0 {
		c.ViaLoad = true
		if rapid.IntRange(0, 2).Draw(t, "other-proto") == 0 {
			c.V6 = !c.V6 // possibly a protocol the plugin has no setup function for
		}
	}
	if pp.name == "range" && len(c.Args) >= 4 && rapid.IntRange(0, 39).Draw(t, "whole-space") == 0 {
		c.Args[1], c.Args[2] = "0.0.0.0", "255.255.255.255"
	}
	return c
}

// battery of requests (wire bytes)
func battery4() [][]byte {
	var out [][]byte
	for _, mt := range []byte{1, 3} {
		for _, prl := range []string{"", "0103060f1a33424377797974", "0c0f1c"} {
			for _, o116 := range []bool{false, true} {
				p := gen.Pkt4{Op: 1, HType: 1, HLen: 6, Xid: 0x600d, CHAddr: "02000000aa01"}
				p.Opts = append(p.Opts, gen.Opt4{Code: 53, Hex: gen.H([]byte{mt})})
				if prl != "" {
					p.Opts = append(p.Opts, gen.Opt4{Code: 55, Hex: prl})
				}
				if o116 {
					p.Opts = append(p.Opts, gen.Opt4{Code: 116, Hex: "01"})
				}
				p.Opts = append(p.Opts, gen.Opt4{Code: 12, Hex: gen.H([]byte("client"))})
				out = append(out, p.Bytes())
			}
		}
	}
	// a client listed in the static lease file, and a relayed one with option 82
	p := gen.Pkt4{Op: 1, HType: 1, HLen: 6, Xid: 0x600e, CHAddr: "001122334455", GIAddr: "10.9.9.1"}
	p.Opts = []gen.Opt4{{Code: 53, Hex: "01"}, {Code: 82, Hex: "01046369726332"}, {Code: 61, Hex: "01001122334455"}}
	out = append(out, p.Bytes())
	return out
}

func battery6() [][]byte {
	var out [][]byte
	cid := gen.Opt6(gen.O6ClientID, gen.DUIDLL(1, []byte{0x00, 0x11, 0x22, 0x33, 0x44, 0x55}))
	sid := gen.Opt6(gen.O6ServerID, gen.DUIDLL(1, []byte{0, 0xde, 0xad, 0xbe, 0xef, 0}))
	for _, mt := range []uint8{gen.M6Solicit, gen.M6Request, gen.M6InfoRequest} {
		for _, oro := range [][]uint16{nil, {23, 24, 59, 60}, {31}} {
			for _, ia := range []int{0, 1, 2, 3} {
				for _, relay := range []int{0, 1} {
					opts := [][]byte{cid, gen.Opt6(gen.O6ElapsedTime, []byte{0, 0})}
					if mt == gen.M6Request {
						opts = append(opts, sid)
					}
					if oro != nil {
						opts = append(opts, gen.ORO6(oro...))
					}
					if ia >= 1 {
						opts = append(opts, gen.IANA6([4]byte{0, 0, 0, 7}, 0, 0))
					}
					if ia == 2 {
						opts = append(opts, gen.IAPD6([4]byte{0, 0, 0, 8}, 0, 0), gen.IAPD6([4]byte{0, 0, 0, 9}, 0, 0, gen.IAPrefix6(0, 0, 0, nil)))
					}
					if ia == 3 {
						// hints a pool of any accepted shape may have to look at: inside documentation space, v4-mapped, all-ones
						opts = append(opts, gen.IAPD6([4]byte{0, 0, 0, 10}, 0, 0,
							gen.IAPrefix6(0, 0, 64, net.ParseIP("2001:db8::")), gen.IAPrefix6(0, 0, 120, net.ParseIP("::ffff:10.1.0.0")),
							gen.IAPrefix6(0, 0, 128, net.ParseIP("ffff:ffff:ffff:ffff:ffff:ffff:ffff:ffff")), gen.IAPrefix6(0, 0, 56, net.ParseIP("::"))))
					}
					w := gen.Msg6(mt, 0x600d01, opts...)
					if relay == 1 {
						w = gen.Relay6(gen.M6RelayForw, 0, net.ParseIP("2001:db8::1"), net.ParseIP("fe80::211:22ff:fe33:4455"), w, false, gen.Opt6(gen.O6InterfaceID, []byte("eth7")))
					}
					out = append(out, w)
				}
			}
		}
	}
	return out
}

var (
	bat4 = battery4()
	bat6 = battery6()
)

var c19Whole atomic.Int64

func fdLeft() bool {
	var l syscall.Rlimit
	if syscall.Getrlimit(syscall.RLIMIT_NOFILE, &l) != nil {
		return true
	}
	return c19Opens.Load()+300 < int64(l.Cur)
}

// ExecCfg sets the plugin up and, if accepted, runs the battery
func ExecCfg(c CfgCase) (res core.Result) {
	fam := "v4"
	if c.V6 {
		fam = "v6"
	}
	if !withinBounds(&c) {
		res.Skipped = "resource-bound"
		return
	}
	whole := false
	if c.Plugin == "range" && len(c.Args) >= 3 && c.Args[1] == "0.0.0.0" && c.Args[2] == "255.255.255.255" {
		whole = true
		defer runtime.GC()
	}
	if (c.Plugin == "range" && !fdLeft()) || (c.Plugin == "file" && len(c.Args) > 1 && c.Args[1] == "autorefresh" && c19Watch.Load() >= 5) {
		res.Skipped = "fd-or-inotify-budget"
		return
	}
	plug.Reset()
	p := plug.ByName(c.Plugin)
	if p == nil {
		res.Skipped = "bad-case"
		return
	}
	var (
		h4  handler.Handler4
		h6  handler.Handler6
		err error
	)
	func() {
		defer func() {
			if r := recover(); r != nil {
				core.HarnessPanic(r)
				res.Viol = core.Violate("C19/"+c.Plugin+"/"+fam+"/setup-panics", "Setup(%q) panicked: %v", c.Args, r)
			}
		}()
		if c.Plugin == "range" {
			c19Opens.Add(1)
		}
		args := resolveArgs(c.Args)
		if c.ViaLoad {
			registerBuiltins()
			conf := config.New()
			sec := &config.ServerConfig{Plugins: []config.PluginConfig{{Name: c.Plugin, Args: args}}}
			if c.V6 {
				conf.Server6 = sec
			} else {
				conf.Server4 = sec
			}
			l4, l6, lerr := plugins.LoadPlugins(conf)
			err = lerr
			if err == nil {
				// the handler list is run the way HandleMsg4/6 run it
				h4 = func(req, resp *dhcpv4.DHCPv4) (*dhcpv4.DHCPv4, bool) {
					stop := false
					for _, h := range l4 {
						if h == nil {
							// HandleMsg4 would call it: the server's crash, not the harness's
							panic(core.Panicked{Value: "plugins.LoadPlugins returned a nil handler in the DHCPv4 chain; the server calls it (nil pointer dereference)"})
						}
						resp, stop = h(req, resp)
						if stop {
							break
						}
					}
					return resp, stop
				}
				h6 = func(req, resp dhcpv6.DHCPv6) (dhcpv6.DHCPv6, bool) {
					stop := false
					for _, h := range l6 {
						if h == nil {
							panic(core.Panicked{Value: "plugins.LoadPlugins returned a nil handler in the DHCPv6 chain; the server calls it (nil pointer dereference)"})
						}
						resp, stop = h(req, resp)
						if stop {
							break
						}
					}
					return resp, stop
				}
			}
			return
		}
		if c.V6 {
			h6, err = p.Setup6(args...)
		} else {
			h4, err = p.Setup4(args...)
		}
	}()
	if res.Viol != nil {
		return
	}
	if err != nil {
		res.NonTrivial = true
		res.Classes = []string{c.Plugin + "/" + fam + "/rejected"}
		return
	}
	if c.Plugin == "file" && len(c.Args) > 1 && c.Args[1] == "autorefresh" {
		c19Watch.Add(1)
	}
	if (c.V6 && h6 == nil) || (!c.V6 && h4 == nil) {
		// LoadPlugins turns a nil handler into a start-up error
		res.NonTrivial = true
		res.Classes = []string{c.Plugin + "/" + fam + "/rejected"}
		return
	}
	res.Classes = []string{c.Plugin + "/" + fam + "/accepted"}
	if whole {
		res.Classes = append(res.Classes, "range:whole-ipv4-space")
	}
	res.NonTrivial = true
	if c.V6 {
		for i, w := range bat6 {
			if v := runOne6(&c, h6, w, i); v != nil {
				res.Viol = v
				return
			}
		}
		for i, w := range crowd6(&c) {
			if v := runOne6(&c, h6, w, 1000+i); v != nil {
				res.Viol = v
				return
			}
			res.Classes = append(res.Classes[:1], "crowd-beyond-the-pool")
		}
		return
	}
	for i, w := range bat4 {
		if v := runOne4(&c, h4, w, i); v != nil {
			res.Viol = v
			return
		}
	}
	for i, w := range crowd4(&c) {
		if v := runOne4(&c, h4, w, 1000+i); v != nil {
			res.Viol = v
			return
		}
		res.Classes = append(res.Classes[:1], "crowd-beyond-the-pool")
	}
	return
}

// crowd4: for a lease range of up to 300 addresses, one DISCOVER from each of (size + 3) further
// clients: the requests that find the range full are part of "every request"
func crowd4(c *CfgCase) [][]byte {
	if c.Plugin != "range" || len(c.Args) < 3 {
		return nil
	}
	a, b := net.ParseIP(c.Args[1]).To4(), net.ParseIP(c.Args[2]).To4()
	if a == nil || b == nil {
		return nil
	}
	ua := uint64(a[0])<<24 | uint64(a[1])<<16 | uint64(a[2])<<8 | uint64(a[3])
	ub := uint64(b[0])<<24 | uint64(b[1])<<16 | uint64(b[2])<<8 | uint64(b[3])
	if ub < ua || ub-ua+1 > 300 {
		return nil
	}
	var out [][]byte
	for k := 0; k < int(ub-ua+1)+3; k++ {
		p := gen.Pkt4{Op: 1, HType: 1, HLen: 6, Xid: 0x601000 + uint32(k), CHAddr: fmt.Sprintf("02c190%02x%04x", k>>16, k&0xffff)}
		mt := "01"
		if k%3 == 2 {
			mt = "03"
		}
		p.Opts = []gen.Opt4{{Code: 53, Hex: mt}, {Code: 12, Hex: gen.H([]byte(fmt.Sprintf("host%d", k)))}}
		out = append(out, p.Bytes())
	}
	return out
}

// crowd6: the same for a prefix pool of up to 256 blocks
func crowd6(c *CfgCase) [][]byte {
	if c.Plugin != "prefix" || len(c.Args) < 2 {
		return nil
	}
	_, n, err := net.ParseCIDR(c.Args[0])
	sz, err2 := strconv.Atoi(c.Args[1])
	if err != nil || err2 != nil {
		return nil
	}
	ones, _ := n.Mask.Size()
	if sz < ones || sz-ones > 8 {
		return nil
	}
	var out [][]byte
	for k := 0; k < (1<<uint(sz-ones))+3; k++ {
		cid := gen.Opt6(gen.O6ClientID, gen.DUIDLL(1, []byte{0x02, 0xc1, 0x90, 0x00, byte(k >> 8), byte(k)}))
		opts := [][]byte{cid, gen.Opt6(gen.O6ElapsedTime, []byte{0, 0}), gen.IAPD6([4]byte{0, 0, 0, 1}, 0, 0)}
		if k%4 == 3 {
			opts = append(opts, gen.IAPD6([4]byte{0, 0, 0, 2}, 0, 0, gen.IAPrefix6(0, 0, 0, nil)))
		}
		out = append(out, gen.Msg6(gen.M6Solicit, 0x601000+uint32(k), opts...))
	}
	return out
}

func runOne4(c *CfgCase, h handler.Handler4, wire []byte, i int) (v *core.Violation) {
	stage := "handler"
	defer func() {
		if r := recover(); r != nil {
			core.HarnessPanic(r)
			v = core.Violate("C19/"+c.Plugin+"/v4/accepted-config-panics-in-"+stage, "args %q accepted by setup; request #%d: %s panicked: %v", c.Args, i, stage, r)
		}
	}()
	req, stub, ok := gen.Stub4(wire)
	if !ok {
		return nil
	}
	var out *dhcpv4.DHCPv4
	returned, pan := core.Call(20*time.Second, func() { out, _ = h(req, stub) })
	if pan != nil {
		panic(pan)
	}
	if !returned {
		return core.Violate("C19/"+c.Plugin+"/v4/accepted-config-handler-never-returns", "args %q accepted by setup; request #%d: the handler did not return within 20 s", c.Args, i)
	}
	if out == nil {
		return nil
	}
	stage = "serialisation"
	b1 := out.ToBytes()
	back, err := dhcpv4.FromBytes(b1)
	if err != nil {
		return core.Violate("C19/"+c.Plugin+"/v4/reply-does-not-parse", "args %q accepted by setup; request #%d: the reply does not parse: %v", c.Args, i, err)
	}
	// "parses back to the same options"
	if len(back.Options) != len(out.Options) {
		return core.Violate("C19/"+c.Plugin+"/v4/reply-options-change", "args %q accepted by setup; request #%d: reply has %d options, parses back to %d", c.Args, i, len(out.Options), len(back.Options))
	}
	for code, val := range out.Options {
		if !bytes.Equal(back.Options[code], val) {
			return core.Violate("C19/"+c.Plugin+"/v4/reply-options-change", "args %q accepted by setup; request #%d: option %d is %x in the reply and %x after parsing it back", c.Args, i, code, val, back.Options[code])
		}
	}
	if b2 := back.ToBytes(); !bytes.Equal(b1, b2) {
		return core.Violate("C19/"+c.Plugin+"/v4/reply-options-change", "args %q accepted by setup; request #%d: re-serialising the parsed reply gives different bytes", c.Args, i)
	}
	if c.Plugin == "searchdomains" {
		// the DHCPv4 reply object holds bytes only: what "the same options" means for a name list is
		// the list that was accepted at start-up, read back with the harness's own decoder
		if raw, ok := back.Options[119]; ok {
			if names, dok := gen.DecodeNames(raw); !dok || !sameStrings(names, plainNames(c.Args)) {
				return core.Violate("C19/"+c.Plugin+"/v4/reply-options-change", "args %q accepted by setup; request #%d: the search list in the reply reads back as %q", c.Args, i, names)
			}
		}
	}
	return nil
}

func sameStrings(a, b []string) bool {
	if len(a) != len(b) {
		return false
	}
	for i := range a {
		if a[i] != b[i] {
			return false
		}
	}
	return true
}

func runOne6(c *CfgCase, h handler.Handler6, wire []byte, i int) (v *core.Violation) {
	stage := "handler"
	defer func() {
		if r := recover(); r != nil {
			core.HarnessPanic(r)
			v = core.Violate("C19/"+c.Plugin+"/v6/accepted-config-panics-in-"+stage, "args %q accepted by setup; request #%d: %s panicked: %v", c.Args, i, stage, r)
		}
	}()
	req, _, stub, ok := gen.Stub6(wire)
	if !ok {
		return nil
	}
	var out dhcpv6.DHCPv6
	returned, pan := core.Call(20*time.Second, func() { out, _ = h(req, stub) })
	if pan != nil {
		panic(pan)
	}
	if !returned {
		return core.Violate("C19/"+c.Plugin+"/v6/accepted-config-handler-never-returns", "args %q accepted by setup; request #%d: the handler did not return within 20 s (a lock left behind by an earlier request?)", c.Args, i)
	}
	if out == nil {
		return nil
	}
	stage = "serialisation"
	b1 := out.ToBytes()
	back, err := dhcpv6.FromBytes(b1)
	if err != nil {
		return core.Violate("C19/"+c.Plugin+"/v6/reply-does-not-parse", "args %q accepted by setup; request #%d: the reply does not parse: %v", c.Args, i, err)
	}
	om, ok1 := out.(*dhcpv6.Message)
	bm, ok2 := back.(*dhcpv6.Message)
	if !ok1 || !ok2 {
		return nil
	}
	if len(om.Options.Options) != len(bm.Options.Options) {
		return core.Violate("C19/"+c.Plugin+"/v6/reply-options-change", "args %q accepted by setup; request #%d: reply has %d options, parses back to %d", c.Args, i, len(om.Options.Options), len(bm.Options.Options))
	}
	for k, o := range om.Options.Options {
		p := bm.Options.Options[k]
		if o.Code() != p.Code() || !bytes.Equal(o.ToBytes(), p.ToBytes()) {
			return core.Violate("C19/"+c.Plugin+"/v6/reply-options-change", "args %q accepted by setup; request #%d: option #%d (%s) is %x in the reply and %s %x after parsing it back", c.Args, i, k, o.Code(), o.ToBytes(), p.Code(), p.ToBytes())
		}
	}
	if b2 := back.ToBytes(); !bytes.Equal(b1, b2) {
		return core.Violate("C19/"+c.Plugin+"/v6/reply-options-change", "args %q accepted by setup; request #%d: re-serialising the parsed reply gives different bytes", c.Args, i)
	}
	if c.Plugin == "searchdomains" {
		for _, o := range bm.Options.Options {
			if o.Code() != dhcpv6.OptionDomainSearchList {
				continue
			}
			raw := o.ToBytes()
			if names, dok := gen.DecodeNames(raw); !dok || !sameStrings(names, plainNames(c.Args)) {
				return core.Violate("C19/"+c.Plugin+"/v6/reply-options-change", "args %q accepted by setup; request #%d: the search list in the reply reads back as %q", c.Args, i, names)
			}
		}
	}
	return nil
}
