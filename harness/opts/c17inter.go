//go:build verif

package opts

import (
	"bytes"
	"net"
	"net/url"
	"strings"

	"pgregory.net/rapid"
	"verif/harness/core"
	"verif/harness/gen"
	"verif/harness/plug"
)

// InterCase: a plugin configured for both protocols with different values; several requests pass the
// handlers before the first reply is serialised, as happens when the server handles datagrams concurrently
// (a reply is serialised only after the whole chain has run)
type InterCase struct {
	Plugin string   `json:"plugin"`
	Args4  []string `json:"args4"`
	Args6  []string `json:"args6"`
	// Order of handler calls, e.g. "6,4,6": then the replies are serialised in that order
	Order []int `json:"order"`
}

// GenInter draws a case
func GenInter(t *rapid.T) InterCase {
	c := InterCase{Plugin: rapid.SampledFrom([]string{"searchdomains", "dns", "nbp"}).Draw(t, "plugin")}
	c.Args4 = genArgs(t, c.Plugin, false)
	c.Args6 = genArgs(t, c.Plugin, true)
	n := rapid.IntRange(2, 5).Draw(t, "ncalls")
	for i := 0; i < n; i++ {
		c.Order = append(c.Order, rapid.SampledFrom([]int{4, 6}).Draw(t, "proto"))
	}
	return c
}

// ExecInter runs one case
func ExecInter(c InterCase) (res core.Result) {
	defer func() {
		if r := recover(); r != nil {
			core.HarnessPanic(r)
			res = core.Result{Viol: core.Violate("C17/"+c.Plugin+"/panic", "handler panicked: %v", r)}
		}
	}()
	plug.Reset()
	p := plug.ByName(c.Plugin)
	h6, err6 := p.Setup6(c.Args6...)
	h4, err4 := p.Setup4(c.Args4...)
	if (err4 != nil && optionalSpelling(&OptCase{Plugin: c.Plugin, Args: c.Args4})) || (err6 != nil && optionalSpelling(&OptCase{Plugin: c.Plugin, Args: c.Args6})) {
		res.Classes = append(res.Classes, "optional-spelling-refused")
		return
	}
	if err4 != nil || err6 != nil || h4 == nil || h6 == nil {
		res.Viol = core.Violate("C17/"+c.Plugin+"/setup-rejects-valid-args", "Setup4(%q): %v / Setup6(%q): %v", c.Args4, err4, c.Args6, err6)
		return
	}
	type pending struct {
		proto int
		ser   func() []byte
	}
	var outs []pending
	for i, proto := range c.Order {
		if proto == 4 {
			pk := gen.Pkt4{Op: 1, HType: 1, HLen: 6, Xid: uint32(0x1700 + i), CHAddr: "02000000aa01"}
			pk.Opts = []gen.Opt4{{Code: 53, Hex: "01"}}
			req, stub, ok := gen.Stub4(pk.Bytes())
			if !ok {
				res.Skipped = "bad-case"
				return
			}
			out, _ := h4(req, stub)
			if out == nil {
				res.Viol = core.Violate("C17/"+c.Plugin+"/dropped-wrongly", "v4 handler returned nil")
				return
			}
			outs = append(outs, pending{4, out.ToBytes})
		} else {
			wire := gen.Msg6(gen.M6Solicit, uint32(0x1700+i), gen.Opt6(gen.O6ClientID, gen.DUIDLL(1, []byte{2, 0, 0, 0, 0xbb, byte(i)})), gen.ORO6(23, 24, 59, 60), gen.IANA6([4]byte{0, 0, 0, 1}, 0, 0))
			req, _, stub, ok := gen.Stub6(wire)
			if !ok {
				res.Skipped = "bad-case"
				return
			}
			out, _ := h6(req, stub)
			if out == nil {
				res.Viol = core.Violate("C17/"+c.Plugin+"/dropped-wrongly", "v6 handler returned nil")
				return
			}
			outs = append(outs, pending{6, out.ToBytes})
		}
	}
	both := false
	for i, o := range outs {
		raw := o.ser()
		if o.proto != c.Order[0] {
			both = true
		}
		if o.proto == 4 {
			tl, _ := gen.Options4(raw)
			data, _ := gen.Merged4(tl)
			var v *core.Violation
			switch c.Plugin {
			case "searchdomains":
				names, ok := gen.DecodeNames(data[119])
				if !ok || strings.Join(names, " ") != strings.Join(plainNames(c.Args4), " ") {
					v = core.Violate("C17/searchdomains/wrong-value", "call #%d (DHCPv4) of %v: reply carries search list %q, configured %q (DHCPv6 instance: %q)", i, c.Order, names, c.Args4, c.Args6)
				}
			case "dns":
				var want []byte
				for _, a := range c.Args4 {
					want = append(want, net.ParseIP(a).To4()...)
				}
				if !bytes.Equal(data[6], want) {
					v = core.Violate("C17/dns/wrong-value", "call #%d (DHCPv4) of %v: option 6 = %x, configured %q", i, c.Order, data[6], c.Args4)
				}
			case "nbp":
				u, _ := url.Parse(c.Args4[0])
				want := []byte(c.Args4[0])
				if u.Scheme != "http" && u.Scheme != "https" && u.Scheme != "ftp" {
					want = []byte(u.Path)
				}
				if !bytes.Equal(data[67], want) {
					v = core.Violate("C17/nbp/wrong-value", "call #%d (DHCPv4) of %v: option 67 = %q, configured %q", i, c.Order, data[67], c.Args4)
				}
			}
			if v != nil {
				res.Viol = v
				return
			}
			continue
		}
		tl, _ := gen.Options6(raw[4:])
		var v *core.Violation
		for _, t6 := range tl {
			switch {
			case c.Plugin == "searchdomains" && t6.Code == 24:
				names, ok := gen.DecodeNames(t6.Data)
				if !ok || strings.Join(names, " ") != strings.Join(plainNames(c.Args6), " ") {
					v = core.Violate("C17/searchdomains/wrong-value", "call #%d (DHCPv6) of %v: reply carries search list %q, configured %q (DHCPv4 instance: %q)", i, c.Order, names, c.Args6, c.Args4)
				}
			case c.Plugin == "dns" && t6.Code == 23:
				var want []byte
				for _, a := range c.Args6 {
					want = append(want, net.ParseIP(a).To16()...)
				}
				if !bytes.Equal(t6.Data, want) {
					v = core.Violate("C17/dns/wrong-value", "call #%d (DHCPv6) of %v: option 23 = %x, configured %q", i, c.Order, t6.Data, c.Args6)
				}
			case c.Plugin == "nbp" && t6.Code == 59:
				if string(t6.Data) != c.Args6[0] {
					v = core.Violate("C17/nbp/wrong-value", "call #%d (DHCPv6) of %v: option 59 = %q, configured %q", i, c.Order, t6.Data, c.Args6)
				}
			}
		}
		if v != nil {
			res.Viol = v
			return
		}
	}
	res.NonTrivial = both
	res.Classes = []string{"interleaved/" + c.Plugin}
	return
}
