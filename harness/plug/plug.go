//go:build verif

// Package plug lists the built-in plugins (as cmds/coredhcp/main.go registers
// them) and resets the package-level state their setup functions accumulate.
package plug

import (
	"github.com/coredhcp/coredhcp/plugins"
	"github.com/coredhcp/coredhcp/plugins/autoconfigure"
	"github.com/coredhcp/coredhcp/plugins/dns"
	"github.com/coredhcp/coredhcp/plugins/file"
	"github.com/coredhcp/coredhcp/plugins/ipv6only"
	"github.com/coredhcp/coredhcp/plugins/leasetime"
	"github.com/coredhcp/coredhcp/plugins/mtu"
	"github.com/coredhcp/coredhcp/plugins/nbp"
	"github.com/coredhcp/coredhcp/plugins/netmask"
	"github.com/coredhcp/coredhcp/plugins/prefix"
	rangeplugin "github.com/coredhcp/coredhcp/plugins/range"
	"github.com/coredhcp/coredhcp/plugins/router"
	"github.com/coredhcp/coredhcp/plugins/searchdomains"
	"github.com/coredhcp/coredhcp/plugins/serverid"
	"github.com/coredhcp/coredhcp/plugins/sleep"
	"github.com/coredhcp/coredhcp/plugins/staticroute"
)

// All is the list of built-in plugins in the order main.go registers them
var All = []*plugins.Plugin{
	&autoconfigure.Plugin,
	&dns.Plugin,
	&file.Plugin,
	&ipv6only.Plugin,
	&leasetime.Plugin,
	&mtu.Plugin,
	&nbp.Plugin,
	&netmask.Plugin,
	&prefix.Plugin,
	&rangeplugin.Plugin,
	&router.Plugin,
	&searchdomains.Plugin,
	&serverid.Plugin,
	&sleep.Plugin,
	&staticroute.Plugin,
}

// ByName finds a built-in plugin
func ByName(name string) *plugins.Plugin {
	for _, p := range All {
		if p.Name == name {
			return p
		}
	}
	return nil
}

// Reset restores the package-level configuration of the plugins whose setup
// only appends to it or sets it conditionally
func Reset() {
	dns.VerifReset()
	router.VerifReset()
	nbp.VerifReset()
	ipv6only.VerifReset()
	autoconfigure.VerifReset()
}
