package alloc

import (
	"errors"
	"math/big"
	"net"

	"github.com/coredhcp/coredhcp/plugins/allocators"
	"pgregory.net/rapid"
	"verif/harness/core"
)

// CalcCase is one input of the prefix arithmetic: a base aligned to /P, an
// address X at or above it, and a block count N.
type CalcCase struct {
	Base string `json:"base"`
	X    string `json:"x"`
	P    int    `json:"p"`
	N    uint64 `json:"n"`
}

func bigOf(ip net.IP) *big.Int { return new(big.Int).SetBytes(ip.To16()) }

func ipOf(v *big.Int) net.IP {
	b := v.Bytes()
	ip := make(net.IP, 16)
	copy(ip[16-len(b):], b)
	return ip
}

var two64 = new(big.Int).Lsh(big.NewInt(1), 64)

// GenCalc draws (base, x, p, n) with carry/borrow patterns across the halves
func GenCalc(t *rapid.T) CalcCase {
	p := rapid.SampledFrom([]int{0, 1, 2, 7, 8, 31, 32, 33, 48, 56, 62, 63, 64, 65, 66, 72, 96, 120, 126, 127, 128}).Draw(t, "p")
	if rapid.IntRange(0, 2).Draw(t, "anyp") == 0 {
		p = rapid.IntRange(0, 128).Draw(t, "p-any")
	}
	base := maskTo(ip128(half(t, "basehi"), half(t, "baselo")), p)
	B := bigOf(base)
	block := new(big.Int).Lsh(big.NewInt(1), uint(128-p))
	room := new(big.Int).Sub(two128, B) // number of addresses at or above base
	room.Sub(room, big.NewInt(1))       // max delta
	// delta: 0, 1, block-1, block, m*block +- 1, spanning the 64-bit boundary, up to all-ones
	var delta *big.Int
	switch rapid.IntRange(0, 7).Draw(t, "delta-kind") {
	case 0:
		delta = big.NewInt(0)
	case 1:
		delta = big.NewInt(1)
	case 2:
		delta = new(big.Int).Sub(block, big.NewInt(1))
	case 3:
		delta = new(big.Int).Set(block)
	case 4:
		m := new(big.Int).SetUint64(half(t, "delta-m"))
		delta = new(big.Int).Mul(m, block)
		delta.Add(delta, big.NewInt(int64(rapid.IntRange(-1, 1).Draw(t, "delta-pm"))))
	case 5:
		delta = new(big.Int).Set(room)
	case 6:
		delta = bigOf(ip128(half(t, "dhi"), half(t, "dlo")))
	default:
		delta = new(big.Int).SetUint64(half(t, "dlo-only"))
	}
	if delta.Sign() < 0 {
		delta.SetInt64(0)
	}
	if delta.Cmp(room) > 0 {
		delta.Mod(delta, new(big.Int).Add(room, big.NewInt(1)))
	}
	x := ipOf(new(big.Int).Add(B, delta))
	var n uint64
	switch rapid.IntRange(0, 5).Draw(t, "n-kind") {
	case 0:
		n = uint64(rapid.IntRange(0, 2).Draw(t, "n-small"))
	case 1:
		// around 2^p
		if p < 64 {
			n = uint64(1) << uint(p)
			n += uint64(int64(rapid.IntRange(-1, 1).Draw(t, "n-pm")))
		} else {
			n = ^uint64(0)
		}
	case 2:
		// exactly the number of blocks up to the end of the address space, +-1
		q := new(big.Int).Div(new(big.Int).Sub(two128, B), block)
		q.Add(q, big.NewInt(int64(rapid.IntRange(-1, 1).Draw(t, "n-pm2"))))
		if q.Sign() >= 0 && q.Cmp(two64) < 0 {
			n = q.Uint64()
		} else {
			n = half(t, "n")
		}
	default:
		n = half(t, "n")
	}
	return CalcCase{Base: base.String(), X: x.String(), P: p, N: n}
}

// ExecCalc checks Offset and AddPrefixes against math/big
func ExecCalc(c CalcCase) (res core.Result) {
	defer func() {
		if r := recover(); r != nil {
			core.HarnessPanic(r)
			res.Viol = core.Violate("C20/panic", "prefix arithmetic panicked: %v", r)
		}
	}()
	base, x := net.ParseIP(c.Base).To16(), net.ParseIP(c.X).To16()
	B, X := bigOf(base), bigOf(x)
	shift := uint(128 - c.P)
	want := new(big.Int).Rsh(new(big.Int).Sub(X, B), shift)
	overflow := want.Cmp(two64) >= 0
	for dir, pair := range [][2]net.IP{{x, base}, {base, x}} {
		// the functions may keep references: hand them private copies
		a, b := append(net.IP(nil), pair[0]...), append(net.IP(nil), pair[1]...)
		got, err := allocators.Offset(a, b, c.P)
		switch {
		case overflow:
			if err == nil {
				res.Viol = core.Violate("C20/offset/no-overflow-error", "Offset(dir %d; x=%s, base=%s, %d) = %d, nil; the index %s needs more than 64 bits", dir, c.X, c.Base, c.P, got, want)
				return
			}
			if !errors.Is(err, allocators.ErrOverflow) {
				res.Viol = core.Violate("C20/offset/wrong-error", "Offset(dir %d; x=%s, base=%s, %d): %v, want ErrOverflow", dir, c.X, c.Base, c.P, err)
				return
			}
		case err != nil:
			res.Viol = core.Violate("C20/offset/spurious-error", "Offset(dir %d; x=%s, base=%s, %d): %v, want %s", dir, c.X, c.Base, c.P, err, want)
			return
		case got != want.Uint64():
			res.Viol = core.Violate("C20/offset/wrong-index", "Offset(dir %d; x=%s, base=%s, %d) = %d, want %s", dir, c.X, c.Base, c.P, got, want)
			return
		}
		if !a.Equal(pair[0]) || !b.Equal(pair[1]) {
			res.Viol = core.Violate("C20/offset/mutates-arguments", "Offset modified its arguments")
			return
		}
	}
	// AddPrefixes
	sum := new(big.Int).Mul(new(big.Int).SetUint64(c.N), new(big.Int).Lsh(big.NewInt(1), shift))
	sum.Add(sum, B)
	addOverflow := sum.Cmp(two128) >= 0
	bcopy := append(net.IP(nil), base...)
	got, err := allocators.AddPrefixes(bcopy, c.N, uint64(c.P))
	switch {
	case addOverflow:
		if err == nil {
			res.Viol = core.Violate("C20/addprefixes/wraps-silently", "AddPrefixes(%s, %d, %d) = %s, nil; the result lies beyond the end of the address space", c.Base, c.N, c.P, got)
			return
		}
		if !errors.Is(err, allocators.ErrOverflow) {
			res.Viol = core.Violate("C20/addprefixes/wrong-error", "AddPrefixes(%s, %d, %d): %v, want ErrOverflow", c.Base, c.N, c.P, err)
			return
		}
	case err != nil:
		res.Viol = core.Violate("C20/addprefixes/spurious-error", "AddPrefixes(%s, %d, %d): %v, want %s", c.Base, c.N, c.P, err, ipOf(sum))
		return
	default:
		if len(got) != 16 || bigOf(got).Cmp(sum) != 0 {
			res.Viol = core.Violate("C20/addprefixes/wrong-address", "AddPrefixes(%s, %d, %d) = %s, want %s", c.Base, c.N, c.P, got, ipOf(sum))
			return
		}
		back, err := allocators.Offset(got, append(net.IP(nil), base...), c.P)
		if err != nil || back != c.N {
			res.Viol = core.Violate("C20/inverse", "Offset(AddPrefixes(%s, %d, %d)=%s, base, %d) = %d, %v; want %d", c.Base, c.N, c.P, got, c.P, back, err, c.N)
			return
		}
	}
	if !bcopy.Equal(base) {
		res.Viol = core.Violate("C20/addprefixes/mutates-arguments", "AddPrefixes modified its base argument")
		return
	}
	// non-trivial: carry or borrow across the 64-bit halves, expected overflow, or p around 64
	bl, xl := new(big.Int).And(B, new(big.Int).Sub(two64, big.NewInt(1))), new(big.Int).And(X, new(big.Int).Sub(two64, big.NewInt(1)))
	borrow := xl.Cmp(bl) < 0
	lowSum := new(big.Int).And(sum, new(big.Int).Sub(two64, big.NewInt(1)))
	carry := c.P > 64 && lowSum.Cmp(bl) < 0 && c.N != 0
	res.NonTrivial = borrow || carry || overflow || addOverflow || (c.P >= 63 && c.P <= 65)
	if borrow {
		res.Classes = append(res.Classes, "borrow")
	}
	if carry {
		res.Classes = append(res.Classes, "carry")
	}
	if overflow {
		res.Classes = append(res.Classes, "offset-overflow")
	}
	if addOverflow {
		res.Classes = append(res.Classes, "add-overflow")
	}
	switch {
	case c.P < 64:
		res.Classes = append(res.Classes, "p<64")
	case c.P == 64:
		res.Classes = append(res.Classes, "p=64")
	default:
		res.Classes = append(res.Classes, "p>64")
	}
	return
}
