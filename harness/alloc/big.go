package alloc

import (
	"errors"
	"fmt"
	"net"
	"runtime"
	"strings"

	"github.com/coredhcp/coredhcp/plugins/allocators"
	"github.com/coredhcp/coredhcp/plugins/allocators/bitmap"
	"pgregory.net/rapid"
	"verif/harness/core"
)

// Very large IPv4 ranges (2^31 .. 2^32 addresses, including the whole address space, whose
// size does not fit in 32 bits). They cannot be drained, so the history is checked against a
// set model only: with a few dozen allocations outstanding the pool is never full, hence
// Allocate must always succeed.

// BigOp is one call on a very large IPv4 pool
type BigOp struct {
	Free bool `json:"free,omitempty"`
	// Kind: none | addr (Off: offset into the range, taken modulo its size) | held (K-th outstanding) | otherfam
	Kind   string `json:"kind"`
	Off    uint64 `json:"off,omitempty"`
	K      uint64 `json:"k,omitempty"`
	Form16 bool   `json:"form16,omitempty"`
}

// BigCase is a history on a very large IPv4 pool
type BigCase struct {
	Mode  string  `json:"mode"`
	Start uint32  `json:"start"`
	End   uint32  `json:"end"`
	Ops   []BigOp `json:"ops"`
}

// GenBig draws a very large range and a short history
func GenBig(mode string) func(t *rapid.T) BigCase {
	return func(t *rapid.T) BigCase {
		c := BigCase{Mode: mode}
		switch rapid.IntRange(0, 4).Draw(t, "geometry") {
		case 0, 1:
			c.Start, c.End = 0, 0xffffffff // 2^32 addresses
		case 2:
			c.Start, c.End = 1, 0xffffffff
		case 3:
			c.Start, c.End = 0, 0xfffffffe
		default:
			c.Start = rapid.Uint32Range(0, 1<<20).Draw(t, "start")
			c.End = c.Start + 0x7fffffff + rapid.Uint32Range(0, 1<<20).Draw(t, "extra")
		}
		n := rapid.IntRange(2, 24).Draw(t, "nops")
		for i := 0; i < n; i++ {
			op := BigOp{}
			if rapid.IntRange(0, 9).Draw(t, "isfree") < 3 {
				op.Free = true
				op.Kind = "held"
				if mode == "C06" {
					op.Kind = rapid.SampledFrom([]string{"held", "held", "addr", "otherfam"}).Draw(t, "free-kind")
				}
			} else {
				op.Kind = rapid.SampledFrom([]string{"none", "none", "none", "addr", "addr", "held", "otherfam"}).Draw(t, "kind")
			}
			switch op.Kind {
			case "addr":
				switch rapid.IntRange(0, 3).Draw(t, "off-kind") {
				case 0:
					op.Off = rapid.Uint64Range(0, 8).Draw(t, "off-low")
				case 1:
					op.Off = ^uint64(0) - rapid.Uint64Range(0, 8).Draw(t, "off-high") // the last addresses (modulo the size)
				case 2:
					op.Off = uint64(1) << uint(rapid.IntRange(0, 31).Draw(t, "off-bit"))
				default:
					op.Off = uint64(rapid.Uint32().Draw(t, "off"))
				}
			case "held":
				op.K = rapid.Uint64Range(0, 32).Draw(t, "k")
			}
			op.Form16 = rapid.Bool().Draw(t, "form16")
			c.Ops = append(c.Ops, op)
		}
		return c
	}
}

// ExecBig interprets the history
func ExecBig(c BigCase) (res core.Result) {
	defer func() {
		if r := recover(); r != nil {
			core.HarnessPanic(r)
			res.Viol = core.Violate(c.Mode+"/panic", "allocator panicked: %v", r)
		}
		if res.Viol != nil && !strings.HasPrefix(res.Viol.Signature, c.Mode+"/") {
			res = core.Result{Classes: []string{"abandoned:" + res.Viol.Signature[:3]}}
		}
	}()
	// each allocator holds a bitmap of 256..512 MB: give it back before the next case
	defer runtime.GC()
	size := uint64(c.End-c.Start) + 1
	a, err := bitmap.NewIPv4Allocator(u32ip(c.Start, false), u32ip(c.End, false))
	if err != nil {
		res.Viol = core.Violate(c.Mode+"/constructor-rejects-valid-pool", "constructor failed on the range %s-%s: %v", u32ip(c.Start, false), u32ip(c.End, false), err)
		return
	}
	pool := fmt.Sprintf("%s-%s (%d addresses)", u32ip(c.Start, false), u32ip(c.End, false), size)
	held := map[uint32]bool{}
	var order []uint32 // outstanding offsets in allocation order
	kth := func(k uint64) (uint32, bool) {
		if len(order) == 0 {
			return 0, false
		}
		return order[k%uint64(len(order))], true
	}
	res.Classes = []string{"v4-big"}
	if size == 1<<32 {
		res.Classes = append(res.Classes, "whole-ipv4-space")
	}
	hintless, hinted := 0, 0
	for i, op := range c.Ops {
		var ipn net.IPNet
		names, off := false, uint32(0)
		switch op.Kind {
		case "addr":
			off, names = uint32(op.Off%size), true
		case "held":
			o, ok := kth(op.K)
			if !ok {
				continue
			}
			off, names = o, true
		case "otherfam":
			ipn.IP = net.ParseIP("2001:db8::1")
		}
		if names {
			ipn.IP = u32ip(c.Start+off, op.Form16)
		}
		if op.Free {
			if ipn.IP == nil {
				continue
			}
			if len(ipn.IP) == 4 {
				ipn.Mask = net.CIDRMask(32, 32)
			} else {
				ipn.Mask = net.CIDRMask(128, 128)
			}
			err := a.Free(ipn)
			if names && held[off] {
				if err != nil {
					res.Viol = core.Violate("C06/v4/free-of-outstanding-fails", "pool %s, op %d: Free(%s) of an outstanding address failed: %v", pool, i, ipn.IP, err)
					return
				}
				delete(held, off)
				for j, o := range order {
					if o == off {
						order = append(order[:j], order[j+1:]...)
						break
					}
				}
			} else if err == nil {
				res.Viol = core.Violate("C06/v4/free-of-foreign-prefix-succeeds/"+op.Kind, "pool %s, op %d: Free(%s), not outstanding, returned nil", pool, i, ipn.IP)
				return
			}
			continue
		}
		got, err := a.Allocate(ipn)
		if err != nil {
			sig := "C05/v4/alloc-fails-while-not-full"
			if !errors.Is(err, allocators.ErrNoAddrAvail) {
				sig = "C05/v4/alloc-fails-while-not-full/other-error"
			}
			res.Viol = core.Violate(sig, "pool %s, op %d: Allocate(%v) failed (%v) with %d addresses outstanding", pool, i, ipn.IP, err, len(held))
			return
		}
		ip4 := got.IP.To4()
		if ip4 == nil {
			res.Viol = core.Violate("C05/v4/not-ipv4", "pool %s, op %d: allocation %v is not an IPv4 address", pool, i, got)
			return
		}
		v := uint32(ip4[0])<<24 | uint32(ip4[1])<<16 | uint32(ip4[2])<<8 | uint32(ip4[3])
		if v < c.Start || v > c.End {
			res.Viol = core.Violate("C05/v4/outside-range", "pool %s, op %d: allocation %s is outside the range", pool, i, got.IP)
			return
		}
		if ones, bits := got.Mask.Size(); ones != 32 || bits != 32 {
			res.Viol = core.Violate("C05/v4/not-slash32", "pool %s, op %d: allocation %s has mask %d/%d, want /32", pool, i, got.IP, ones, bits)
			return
		}
		o := v - c.Start
		if held[o] {
			res.Viol = core.Violate("C04/v4/block-handed-out-twice", "pool %s, op %d: Allocate(%v) returned %s, which is still outstanding", pool, i, ipn.IP, got.IP)
			return
		}
		if names && !held[off] && o != off {
			res.Viol = core.Violate("C07/v4/hint-on-free-block-not-honoured", "pool %s, op %d: hint %s names a free address, got %s", pool, i, ipn.IP, got.IP)
			return
		}
		if names && !held[off] {
			hinted++
		} else {
			hintless++
		}
		held[o] = true
		order = append(order, o)
	}
	// non-trivial: the fallback search ran at least twice (several hint-less allocations) and a hint was honoured
	res.NonTrivial = hintless >= 2 && hinted >= 1
	return
}
