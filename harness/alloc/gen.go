package alloc

import (
	"encoding/binary"
	"net"

	"pgregory.net/rapid"
	"verif/harness/core"
)

// half draws a 64-bit value with the patterns that produce carries/borrows
func half(t *rapid.T, label string) uint64 {
	switch rapid.IntRange(0, 7).Draw(t, label+"-kind") {
	case 0:
		return 0
	case 1:
		return ^uint64(0)
	case 2:
		return 1
	case 3:
		return uint64(1) << uint(rapid.IntRange(0, 63).Draw(t, label+"-bit"))
	case 4:
		return (uint64(1) << uint(rapid.IntRange(1, 63).Draw(t, label+"-bit"))) - 1
	case 5:
		return ^uint64(0) << uint(rapid.IntRange(1, 63).Draw(t, label+"-bit"))
	default:
		return rapid.Uint64().Draw(t, label)
	}
}

func ip128(hi, lo uint64) net.IP {
	ip := make(net.IP, 16)
	binary.BigEndian.PutUint64(ip[:8], hi)
	binary.BigEndian.PutUint64(ip[8:], lo)
	return ip
}

func maskTo(ip net.IP, l int) net.IP { return ip.Mask(net.CIDRMask(l, 128)) }

func genHint(t *rapid.T, v6 bool, mode string) Hint {
	var h Hint
	kinds := []string{"none", "none", "free", "free", "held", "below", "above", "otherfam"}
	if v6 {
		kinds = append(kinds, "zero", "v4m")
	}
	if mode == "C07" {
		kinds = []string{"free", "free", "free", "none", "held"}
		if v6 {
			kinds = append(kinds, "v4m")
		}
	}
	h.Kind = rapid.SampledFrom(kinds).Draw(t, "hint-kind")
	if h.Kind != "none" && h.Kind != "zero" {
		h.K = rapid.Uint64Range(0, 1<<16).Draw(t, "hint-k")
		if rapid.Bool().Draw(t, "hint-klast") {
			h.K = ^uint64(0) - rapid.Uint64Range(0, 3).Draw(t, "hint-kl") // selects the last blocks (mod count)
		}
	}
	if v6 {
		h.Form4 = rapid.IntRange(0, 3).Draw(t, "hint-form4") == 0 // only has an effect in v4-mapped pools
		if rapid.Bool().Draw(t, "hint-inner") {
			h.Inner = rapid.Uint64().Draw(t, "hint-innerv")
		}
		switch rapid.IntRange(0, 5).Draw(t, "hint-maskkind") {
		case 0:
			h.Mask = "none"
		case 1, 2, 3:
			h.Mask = "canon"
			h.MaskLen = rapid.IntRange(0, 128).Draw(t, "hint-masklen")
		case 4:
			h.Mask = "noncontig"
		case 5:
			h.Mask = "short4" // only applied to 4-byte addresses
			h.MaskLen = rapid.IntRange(0, 32).Draw(t, "hint-masklen4")
		}
	} else {
		h.Form16 = rapid.Bool().Draw(t, "hint-form16")
		if rapid.IntRange(0, 3).Draw(t, "hint-mask4") == 0 {
			h.Mask = "short4"
			h.MaskLen = rapid.IntRange(0, 32).Draw(t, "hint-masklen4")
		}
	}
	return h
}

func genFree(t *rapid.T, v6 bool, mode string) FreeSpec {
	var f FreeSpec
	if mode == "C06" {
		f.Kind = rapid.SampledFrom([]string{"held", "held", "unheld", "any", "below", "below", "above", "above", "otherfam"}).Draw(t, "free-kind")
	} else {
		f.Kind = "held"
	}
	switch f.Kind {
	case "below", "above":
		switch rapid.IntRange(0, 2).Draw(t, "free-dist") {
		case 0:
			f.K = rapid.Uint64Range(0, 8).Draw(t, "free-k")
		case 1:
			f.K = uint64(1)<<uint(rapid.IntRange(0, 40).Draw(t, "free-kbit")) - 1
		default:
			f.K = rapid.Uint64Range(0, 1<<16).Draw(t, "free-k")
		}
	default:
		f.K = rapid.Uint64Range(0, 1<<16).Draw(t, "free-k")
	}
	if v6 && rapid.IntRange(0, 9).Draw(t, "free-v4m") == 0 {
		// a sub-prefix of whatever block holds this v4-mapped address (if the pool covers it)
		f.Kind = "v4m"
		f.Inner = rapid.Uint64().Draw(t, "v4m-addr")
		f.Sub = rapid.IntRange(1, 16).Draw(t, "v4m-sub")
		return f
	}
	if v6 && rapid.IntRange(0, 11).Draw(t, "free-wider") == 0 {
		f.Kind = "wider"
		f.Sub = rapid.IntRange(0, 127).Draw(t, "wider-len")
		return f
	}
	if v6 {
		if rapid.IntRange(0, 2).Draw(t, "free-subp") == 0 {
			f.Sub = rapid.IntRange(1, 16).Draw(t, "free-sub")
			f.Inner = rapid.Uint64().Draw(t, "free-inner")
		}
	} else {
		f.Form16 = rapid.Bool().Draw(t, "free-form16")
	}
	return f
}

// GenCase draws a pool geometry and a history for the given property.
func GenCase(mode string) func(t *rapid.T) Case {
	return func(t *rapid.T) Case {
		c := Case{Mode: mode}
		c.V6 = rapid.IntRange(0, 2).Draw(t, "v6") > 0
		maxK := 8
		if core.Thorough() {
			maxK = 12
		}
		if c.V6 {
			// three regimes: page <= 64, pool < 64 < page, pool >= 64
			k := rapid.IntRange(0, maxK).Draw(t, "k")
			if rapid.IntRange(0, 3).Draw(t, "ksmall") == 0 {
				k = rapid.IntRange(0, 3).Draw(t, "k2")
			}
			switch rapid.IntRange(0, 3).Draw(t, "regime") {
			case 0:
				c.PoolLen = rapid.IntRange(0, 64-k).Draw(t, "poollen")
			case 1:
				lo := 64 - k + 1
				if lo < 0 {
					lo = 0
				}
				hi := 63
				if lo > hi {
					lo = hi
				}
				c.PoolLen = rapid.IntRange(lo, hi).Draw(t, "poollen")
			case 2:
				c.PoolLen = rapid.IntRange(64, 128-k).Draw(t, "poollen")
			default:
				c.PoolLen = rapid.IntRange(0, 128-k).Draw(t, "poollen")
			}
			c.Page = c.PoolLen + k
			base := maskTo(ip128(half(t, "basehi"), half(t, "baselo")), c.PoolLen)
			if rapid.IntRange(0, 11).Draw(t, "covers-v4mapped") == 0 {
				// a pool that covers ::ffff:0:0/96 without being v4-mapped itself (::/80, ::fffc:0:0/94, ...)
				hi := 95
				if 128-k < hi {
					hi = 128 - k
				}
				c.PoolLen = rapid.IntRange(0, hi).Draw(t, "poollen-covers")
				c.Page = c.PoolLen + k
				base = maskTo(ip128(0, uint64(0xffff)<<32), c.PoolLen)
			} else if rapid.IntRange(0, 11).Draw(t, "v4mapped-pool") == 0 {
				// a pool inside ::ffff:0:0/96: net.IPNet.Contains also matches 4-byte addresses against it
				c.PoolLen = rapid.IntRange(96, 128-k).Draw(t, "poollen-v4mapped")
				c.Page = c.PoolLen + k
				lo := uint64(0xffff)<<32 | uint64(rapid.Uint32().Draw(t, "v4mapped-base"))
				base = maskTo(ip128(0, lo), c.PoolLen)
			}
			c.Base = base.String()
		} else {
			sizes := []uint32{1, 2, 3, 4, 7, 63, 64, 65, 127, 128, 129, 256, 300}
			if core.Thorough() {
				sizes = append(sizes, 1000, 4096, 4097)
			}
			c.N = rapid.SampledFrom(sizes).Draw(t, "n")
			maxStart := uint32(0xffffffff) - (c.N - 1)
			switch rapid.IntRange(0, 3).Draw(t, "startkind") {
			case 0:
				c.Start = 0
			case 1:
				c.Start = maxStart // range ends at 255.255.255.255
			default:
				c.Start = rapid.Uint32Range(0, maxStart).Draw(t, "start")
			}
		}
		var nblocks uint64
		if c.V6 {
			nblocks = 1 << uint(c.Page-c.PoolLen)
		} else {
			nblocks = uint64(c.N)
		}
		maxOps := 40
		if core.Thorough() {
			maxOps = 90
		}
		// long hint-less runs make exhaustion of small pools common
		nops := rapid.IntRange(0, maxOps).Draw(t, "nops")
		fillFirst := nblocks <= 70 && rapid.IntRange(0, 2).Draw(t, "fill") == 0
		if fillFirst {
			fill := int(nblocks) - rapid.IntRange(0, 2).Draw(t, "fill-short")
			for i := 0; i < fill; i++ {
				c.Ops = append(c.Ops, Op{H: Hint{Kind: "none"}})
			}
		}
		for i := 0; i < nops; i++ {
			if rapid.IntRange(0, 9).Draw(t, "isfree") < 4 {
				c.Ops = append(c.Ops, Op{Free: true, F: genFree(t, c.V6, mode)})
			} else {
				c.Ops = append(c.Ops, Op{H: genHint(t, c.V6, mode)})
			}
		}
		if mode == "C06" && rapid.IntRange(0, 7).Draw(t, "freerace") == 0 {
			n := rapid.IntRange(1, 2).Draw(t, "freerace-n")
			for i := 0; i < n; i++ {
				c.FreeRace = append(c.FreeRace, rapid.Uint64Range(0, 64).Draw(t, "freerace-k"))
			}
			c.FreeRaceG = rapid.IntRange(2, 8).Draw(t, "freerace-g")
		}
		if mode == "C04" && rapid.IntRange(0, 3).Draw(t, "conc") == 0 {
			g := rapid.IntRange(2, 8).Draw(t, "goroutines")
			for i := 0; i < g; i++ {
				n := rapid.IntRange(1, 24).Draw(t, "conc-n")
				var s []ConcOp
				for j := 0; j < n; j++ {
					op := ConcOp{}
					switch rapid.IntRange(0, 5).Draw(t, "conc-kind") {
					case 0, 1:
						op.Free = true
						op.J = rapid.Uint64Range(0, 64).Draw(t, "conc-j")
					case 2, 3:
						op.Hinted = true
						// few distinct targets so that goroutines contend for the same block
						op.HintIdx = rapid.Uint64Range(0, 3).Draw(t, "conc-hint")
					}
					s = append(s, op)
				}
				c.Conc = append(c.Conc, s)
			}
		}
		if (mode == "C07" || mode == "C04") && rapid.IntRange(0, 9).Draw(t, "churn") == 0 {
			c.Churn = &Churn{
				G:      rapid.IntRange(2, 12).Draw(t, "churn-g"),
				Iter:   rapid.SampledFrom([]int{200, 1000, 3000}).Draw(t, "churn-iter"),
				Keep:   rapid.IntRange(0, 3).Draw(t, "churn-keep"),
				Hinted: rapid.Bool().Draw(t, "churn-hinted"),
			}
		}
		return c
	}
}
