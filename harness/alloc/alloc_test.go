package alloc

import (
	"testing"

	"verif/harness/core"
)

func TestC04(t *testing.T) { core.Run(t, "C04", GenCase("C04"), Exec) }
func TestC05(t *testing.T) { core.Run(t, "C05", GenCase("C05"), Exec) }
func TestC06(t *testing.T) { core.Run(t, "C06", GenCase("C06"), Exec) }
func TestC07(t *testing.T) { core.Run(t, "C07", GenCase("C07"), Exec) }
func TestC20(t *testing.T) { core.Run(t, "C20", GenCalc, ExecCalc) }
