package alloc

import (
	"math/big"
	"net"
	"testing"

	"verif/harness/core"
)

func TestC04(t *testing.T) { core.Run(t, "C04", GenCase("C04"), Exec) }
func TestC05(t *testing.T) { core.Run(t, "C05", GenCase("C05"), Exec) }
func TestC06(t *testing.T) { core.Run(t, "C06", GenCase("C06"), Exec) }
func TestC07(t *testing.T) { core.Run(t, "C07", GenCase("C07"), Exec) }
func TestC04Big(t *testing.T) { core.Run(t, "C04", GenBig("C04"), ExecBig) }
func TestC05Big(t *testing.T) { core.Run(t, "C05", GenBig("C05"), ExecBig) }
func TestC06Big(t *testing.T) { core.Run(t, "C06", GenBig("C06"), ExecBig) }
func TestC07Big(t *testing.T) { core.Run(t, "C07", GenBig("C07"), ExecBig) }
func TestC20(t *testing.T) { core.Run(t, "C20", GenCalc, ExecCalc) }

func FuzzIPCalc(f *testing.F) {
	f.Add([]byte{0x20, 0x01, 0x0d, 0xb8, 0, 0, 0, 0, 0, 0, 0, 0, 0, 0, 0, 0}, []byte{0, 0, 0, 0, 0, 0, 0, 0, 0, 0, 0, 0, 0, 0, 1, 0}, uint8(64), uint64(256))
	f.Add([]byte{0xff, 0xff, 0xff, 0xff, 0xff, 0xff, 0xff, 0xff, 0, 0, 0, 0, 0, 0, 0, 0}, []byte{0, 0, 0, 0, 0, 0, 0, 0, 0xff, 0xff, 0xff, 0xff, 0xff, 0xff, 0xff, 0xff}, uint8(65), uint64(1)<<63)
	f.Add(make([]byte, 16), make([]byte, 16), uint8(8), uint64(256))
	f.Fuzz(func(t *testing.T, base, delta []byte, p uint8, n uint64) {
		if len(base) != 16 || len(delta) != 16 || p > 128 {
			return
		}
		b := maskTo(append([]byte(nil), base...), int(p))
		B := bigOf(b)
		X := new(big.Int).Add(B, bigOf(delta))
		if X.Cmp(two128) >= 0 {
			X.Sub(two128, big.NewInt(1))
		}
		c := CalcCase{Base: net.IP(b).String(), X: ipOf(X).String(), P: int(p), N: n}
		if r := ExecCalc(c); r.Viol != nil {
			t.Fatalf("VIOLATION-DETAIL property=C20 signature=%s: %s", r.Viol.Signature, r.Viol.Message)
		}
	})
}
