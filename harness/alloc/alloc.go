// Package alloc decides C04-C07 (the two bitmap allocators) and C20 (prefix
// arithmetic). One case type and one interpreter serve C04-C07; the Mode field
// selects which operations the generator may emit and which assertions are
// armed, so that an open defect under one property cannot mask another.
package alloc

import (
	"errors"
	"fmt"
	"math/big"
	"net"
	"sort"
	"strings"
	"sync"
	"sync/atomic"
	"time"

	"github.com/coredhcp/coredhcp/plugins/allocators"
	"github.com/coredhcp/coredhcp/plugins/allocators/bitmap"
	"verif/harness/core"
)

// Hint describes the hint of an Allocate call symbolically; it is resolved
// against the model when the case is interpreted.
type Hint struct {
	// Kind: none | free (k-th free block) | held (k-th outstanding block) |
	// below | above (k blocks outside the pool) | otherfam
	Kind string `json:"kind"`
	K    uint64 `json:"k,omitempty"`
	// Inner is mixed into the bits below the block boundary (IPv6: the hint may
	// point anywhere inside the block)
	Inner uint64 `json:"inner,omitempty"`
	// Mask: none | canon (128-bit CIDR mask of MaskLen) | short4 (32-bit mask,
	// only with 4-byte addresses) | noncontig (16-byte non-contiguous mask)
	Mask    string `json:"mask,omitempty"`
	MaskLen int    `json:"masklen,omitempty"`
	// Form16 (IPv4 allocator): pass the address in 16-byte form
	Form16 bool `json:"form16,omitempty"`
	// Form4 (IPv6 allocator, pool inside ::ffff:0:0/96): pass the address of a free/held hint in its
	// 4-byte form. It is an IPv4 hint: it counts as none for the length, and nothing is demanded
	// about the block - only that the allocator copes
	Form4 bool `json:"form4,omitempty"`
}

// FreeSpec names the argument of a Free call symbolically.
type FreeSpec struct {
	// Kind: held (k-th outstanding block) | unheld (k-th free block) |
	// any (block k mod N) | below | above (K blocks outside the pool) | otherfam |
	// wider (IPv6: the address slice Allocate returned for the k-th outstanding block, with a
	// mask Sub bits long, shorter than the pool's: if that prefix starts below the pool it is a
	// prefix outside the pool and Free must refuse it)
	Kind string `json:"kind"`
	K    uint64 `json:"k,omitempty"`
	// Sub > 0 (IPv6): free a sub-prefix of the block, Sub bits longer than the
	// page, at inner offset Inner
	Sub    int    `json:"sub,omitempty"`
	Inner  uint64 `json:"inner,omitempty"`
	Form16 bool   `json:"form16,omitempty"`
}

// Op is one call.
type Op struct {
	Free bool     `json:"free,omitempty"`
	H    Hint     `json:"h,omitempty"`
	F    FreeSpec `json:"f,omitempty"`
}

// ConcOp is one call of a goroutine in the concurrent phase: allocate (with a
// hint on block HintIdx mod N, or none), or free the J-th block this goroutine
// holds.
type ConcOp struct {
	Free    bool   `json:"free,omitempty"`
	Hinted  bool   `json:"hinted,omitempty"`
	HintIdx uint64 `json:"hint,omitempty"`
	J       uint64 `json:"j,omitempty"`
}

// Case is one pool plus a history.
type Case struct {
	Mode string `json:"mode"` // C04 | C05 | C06 | C07
	V6   bool   `json:"v6"`
	// IPv6 pool: Base/PoolLen, allocation length Page
	Base    string `json:"base,omitempty"`
	PoolLen int    `json:"poollen,omitempty"`
	Page    int    `json:"page,omitempty"`
	// IPv4 pool: Start (as integer) and number of addresses N
	Start uint32 `json:"start,omitempty"`
	N     uint32 `json:"n,omitempty"`
	Ops   []Op   `json:"ops"`
	// Conc: scripts of the goroutines of the concurrent phase (C04 only)
	Conc [][]ConcOp `json:"conc,omitempty"`
	// FreeRace (C06 only): after the history, for each entry K the K-th outstanding block is freed by
	// FreeRaceG goroutines at once: in every serial order exactly one of them succeeds
	FreeRace  []uint64 `json:"freerace,omitempty"`
	FreeRaceG int      `json:"freeraceg,omitempty"`
	// Churn (C04, C07): after the history, G goroutines allocate and free blocks of their own in
	// a tight loop (Iter rounds each, at most Keep blocks kept); when they are done every block
	// they took is free again, and each free block of the pool is then asked for by hint
	Churn *Churn `json:"churn,omitempty"`
}

// Churn describes the allocate/free storm
type Churn struct {
	G      int  `json:"g"`
	Iter   int  `json:"iter"`
	Keep   int  `json:"keep"`
	Hinted bool `json:"hinted,omitempty"` // every other allocation names the block the goroutine freed last
}

// ---- the reference model ------------------------------------------------

type model struct {
	c       *Case
	n       uint64 // number of blocks
	held    map[uint64]bool
	base    *big.Int // IPv6 pool base as integer
	blockSz *big.Int // 2^(128-page)
}

var two128 = new(big.Int).Lsh(big.NewInt(1), 128)

func newModel(c *Case) *model {
	m := &model{c: c, held: map[uint64]bool{}}
	if c.V6 {
		m.n = uint64(1) << uint(c.Page-c.PoolLen)
		m.base = new(big.Int).SetBytes(net.ParseIP(c.Base).To16())
		m.blockSz = new(big.Int).Lsh(big.NewInt(1), uint(128-c.Page))
	} else {
		m.n = uint64(c.N)
	}
	return m
}

func (m *model) sortedHeld() []uint64 {
	r := make([]uint64, 0, len(m.held))
	for k := range m.held {
		r = append(r, k)
	}
	sort.Slice(r, func(i, j int) bool { return r[i] < r[j] })
	return r
}

// kthFree returns the k-th (mod count) free block index
func (m *model) kthFree(k uint64) (uint64, bool) {
	free := m.n - uint64(len(m.held))
	if free == 0 {
		return 0, false
	}
	k %= free
	// walk; pools are small (<= 2^16)
	for i := uint64(0); i < m.n; i++ {
		if !m.held[i] {
			if k == 0 {
				return i, true
			}
			k--
		}
	}
	return 0, false
}

func (m *model) kthHeld(k uint64) (uint64, bool) {
	h := m.sortedHeld()
	if len(h) == 0 {
		return 0, false
	}
	return h[k%uint64(len(h))], true
}

// addr6 returns pool base + idx*blockSz + inner (inner masked below the block
// boundary), as a 16-byte IP; idx may be negative or beyond the pool; ok is
// false when the address does not exist
func (m *model) addr6(idx *big.Int, inner uint64) (net.IP, bool) {
	v := new(big.Int).Mul(idx, m.blockSz)
	v.Add(v, m.base)
	in := new(big.Int).SetUint64(inner)
	// spread the inner bits over the low part of the block: use inner * odd
	// constant mod blockSz so that high and low bits of the block are touched
	in.Mul(in, new(big.Int).SetUint64(0x9E3779B97F4A7C15))
	in.Mod(in, m.blockSz)
	v.Add(v, in)
	if v.Sign() < 0 || v.Cmp(two128) >= 0 {
		return nil, false
	}
	// the block itself must exist entirely
	lo := new(big.Int).Mul(idx, m.blockSz)
	lo.Add(lo, m.base)
	hi := new(big.Int).Add(lo, m.blockSz)
	if lo.Sign() < 0 || hi.Cmp(two128) > 0 {
		return nil, false
	}
	b := v.Bytes()
	ip := make(net.IP, 16)
	copy(ip[16-len(b):], b)
	return ip, true
}

// index6 returns the block index of a 16-byte address relative to the pool
// (may be negative / beyond the pool)
func (m *model) index6(ip net.IP) *big.Int {
	v := new(big.Int).SetBytes(ip.To16())
	v.Sub(v, m.base)
	// floor division
	q, r := new(big.Int).DivMod(v, m.blockSz, new(big.Int))
	_ = r
	return q
}

// v4mapped is the address ::ffff:a.b.c.d (16 bytes) for the low 32 bits of v
func v4mapped(v uint64) net.IP {
	ip := make(net.IP, 16)
	ip[10], ip[11] = 0xff, 0xff
	ip[12], ip[13], ip[14], ip[15] = byte(v>>24), byte(v>>16), byte(v>>8), byte(v)
	return ip
}

func u32ip(v uint32, form16 bool) net.IP {
	ip := net.IPv4(byte(v>>24), byte(v>>16), byte(v>>8), byte(v)) // 16-byte form
	if form16 {
		return ip
	}
	return ip.To4()
}

func nonContigMask() net.IPMask {
	m := make(net.IPMask, 16)
	for i := range m {
		m[i] = 0xf0
	}
	return m
}

// ---- interpreter ---------------------------------------------------------

type resolvedHint struct {
	ipnet    net.IPNet
	names    bool   // the hint names a block of the pool
	idx      uint64 // which one
	v6Canon  bool   // IPv6 hint with canonical 128-bit mask
	canonLen int
}

func (m *model) resolveHint(h Hint) resolvedHint {
	var r resolvedHint
	c := m.c
	if c.V6 {
		switch h.Kind {
		case "free", "held":
			var idx uint64
			var ok bool
			if h.Kind == "free" {
				idx, ok = m.kthFree(h.K)
			} else {
				idx, ok = m.kthHeld(h.K)
			}
			if !ok {
				return r
			}
			ip, ok := m.addr6(new(big.Int).SetUint64(idx), h.Inner)
			if !ok {
				return r
			}
			r.ipnet.IP, r.names, r.idx = ip, true, idx
			if ip4 := ip.To4(); h.Form4 && ip4 != nil {
				r.ipnet.IP, r.names = ip4, false
			}
		case "below", "above":
			var idx *big.Int
			if h.Kind == "below" {
				idx = new(big.Int).Neg(new(big.Int).SetUint64(h.K%(1<<20) + 1))
			} else {
				idx = new(big.Int).SetUint64(m.n + h.K%(1<<20))
			}
			if ip, ok := m.addr6(idx, h.Inner); ok {
				r.ipnet.IP = ip
			}
		case "otherfam":
			r.ipnet.IP = net.IPv4(10, 0, byte(h.K>>8), byte(h.K)).To4()
		case "v4m":
			// an address of ::ffff:0:0/96: net.IPNet.Contains takes it for an IPv4 address. If the pool
			// covers it, it names a block like any other address
			r.ipnet.IP = v4mapped(h.Inner)
			if q := m.index6(r.ipnet.IP); q.Sign() >= 0 && q.Cmp(new(big.Int).SetUint64(m.n)) < 0 {
				r.names, r.idx = true, q.Uint64()
			}
		case "zero":
			// the unspecified address, as a length-only IA_PD hint carries it
			r.ipnet.IP = make(net.IP, 16)
			if q := m.index6(r.ipnet.IP); q.Sign() >= 0 && q.Cmp(new(big.Int).SetUint64(m.n)) < 0 {
				r.names, r.idx = true, q.Uint64()
			}
		}
		switch h.Mask {
		case "canon":
			if len(r.ipnet.IP) != 4 {
				r.ipnet.Mask = net.CIDRMask(h.MaskLen, 128)
				r.v6Canon, r.canonLen = true, h.MaskLen
			}
		case "short4":
			if len(r.ipnet.IP) == 4 {
				r.ipnet.Mask = net.CIDRMask(h.MaskLen%33, 32)
			}
		case "noncontig":
			if len(r.ipnet.IP) != 4 {
				r.ipnet.Mask = nonContigMask()
			}
		}
		if !r.v6Canon {
			// an IPv6 address without a contiguous 128-bit mask is not a prefix: whether such a hint
			// "names" the block its address lies in is not stated, so nothing is demanded of it
			// beyond a well-formed allocation (IPv4 hints are addresses: the range plugin passes
			// them without a mask)
			r.names = false
		}
		return r
	}
	// IPv4 allocator
	switch h.Kind {
	case "free", "held":
		var idx uint64
		var ok bool
		if h.Kind == "free" {
			idx, ok = m.kthFree(h.K)
		} else {
			idx, ok = m.kthHeld(h.K)
		}
		if !ok {
			return r
		}
		r.ipnet.IP, r.names, r.idx = u32ip(c.Start+uint32(idx), h.Form16), true, idx
	case "below":
		if c.Start > 0 {
			d := uint32(h.K%uint64(c.Start)) + 1
			r.ipnet.IP = u32ip(c.Start-d, h.Form16)
		}
	case "above":
		end := c.Start + c.N - 1
		if end < 0xffffffff {
			d := uint32(h.K%uint64(0xffffffff-end)) + 1
			r.ipnet.IP = u32ip(end+d, h.Form16)
		}
	case "otherfam":
		r.ipnet.IP = net.ParseIP("2001:db8::1")
	}
	switch h.Mask {
	case "canon":
		if len(r.ipnet.IP) == 16 {
			r.ipnet.Mask = net.CIDRMask(h.MaskLen, 128)
		}
	case "short4":
		if len(r.ipnet.IP) == 4 {
			r.ipnet.Mask = net.CIDRMask(h.MaskLen%33, 32)
		}
	}
	return r
}

type resolvedFree struct {
	ipnet   net.IPNet
	valid   bool   // the spec could be resolved to an existing prefix
	inBlock bool   // lies inside block idx of the pool
	idx     uint64 //
}

func (m *model) resolveFree(f FreeSpec) resolvedFree {
	var r resolvedFree
	c := m.c
	var idx uint64
	var ok bool
	switch f.Kind {
	case "held":
		idx, ok = m.kthHeld(f.K)
	case "unheld":
		idx, ok = m.kthFree(f.K)
	case "any":
		idx, ok = f.K%m.n, true
	}
	if c.V6 {
		var ip net.IP
		switch f.Kind {
		case "held", "unheld", "any":
			if !ok {
				return r
			}
			r.inBlock, r.idx = true, idx
			ip, ok = m.addr6(new(big.Int).SetUint64(idx), f.Inner)
		case "v4m":
			ip, ok = v4mapped(f.Inner), true
			if q := m.index6(ip); q.Sign() >= 0 && q.Cmp(new(big.Int).SetUint64(m.n)) < 0 {
				r.inBlock, r.idx = true, q.Uint64()
			}
		case "below":
			ip, ok = m.addr6(new(big.Int).Neg(new(big.Int).SetUint64(f.K+1)), f.Inner)
		case "above":
			bi := new(big.Int).SetUint64(m.n)
			bi.Add(bi, new(big.Int).SetUint64(f.K))
			ip, ok = m.addr6(bi, f.Inner)
		default:
			return r
		}
		if !ok {
			return r
		}
		plen := c.Page + f.Sub
		if plen > 128 {
			plen = 128
		}
		mask := net.CIDRMask(plen, 128)
		// well-formed prefix as a caller would hold it: address masked to its length
		r.ipnet = net.IPNet{IP: ip.Mask(mask), Mask: mask}
		r.valid = true
		return r
	}
	switch f.Kind {
	case "held", "unheld", "any":
		if !ok {
			return r
		}
		r.inBlock, r.idx = true, idx
		r.ipnet.IP = u32ip(c.Start+uint32(idx), f.Form16)
	case "below":
		if c.Start == 0 {
			return r
		}
		r.ipnet.IP = u32ip(c.Start-(uint32(f.K%uint64(c.Start))+1), f.Form16)
	case "above":
		end := c.Start + c.N - 1
		if end == 0xffffffff {
			return r
		}
		r.ipnet.IP = u32ip(end+uint32(f.K%uint64(0xffffffff-end))+1, f.Form16)
	case "otherfam":
		r.ipnet.IP = net.ParseIP("2001:db8::1")
	default:
		return r
	}
	if len(r.ipnet.IP) == 4 {
		r.ipnet.Mask = net.CIDRMask(32, 32)
	} else {
		r.ipnet.Mask = net.CIDRMask(128, 128)
	}
	r.valid = true
	return r
}

// newAllocator builds the real allocator through its public constructor
func newAllocator(c *Case) (allocators.Allocator, error) {
	if c.V6 {
		ip := net.ParseIP(c.Base)
		pool := net.IPNet{IP: ip.To16(), Mask: net.CIDRMask(c.PoolLen, 128)}
		return bitmap.NewBitmapAllocator(pool, c.Page)
	}
	return bitmap.NewIPv4Allocator(u32ip(c.Start, false), u32ip(c.Start+c.N-1, false))
}

// lenientIndex tells which block of the pool an allocation lies in, whatever its alignment,
// length or form; false if it lies in none
func (m *model) lenientIndex(got net.IPNet) (uint64, bool) {
	if m.c.V6 {
		ip := got.IP.To16()
		if ip == nil {
			return 0, false
		}
		q := m.index6(ip)
		if q.Sign() < 0 || q.Cmp(new(big.Int).SetUint64(m.n)) >= 0 {
			return 0, false
		}
		return q.Uint64(), true
	}
	ip4 := got.IP.To4()
	if ip4 == nil {
		return 0, false
	}
	v := uint32(ip4[0])<<24 | uint32(ip4[1])<<16 | uint32(ip4[2])<<8 | uint32(ip4[3])
	if v < m.c.Start || v > m.c.Start+m.c.N-1 {
		return 0, false
	}
	return uint64(v - m.c.Start), true
}

// checkBlock verifies that a successful allocation is a well-formed block of
// the pool and returns its index
func (m *model) checkBlock(got net.IPNet, rh resolvedHint) (uint64, *core.Violation) {
	c := m.c
	P := c.Mode
	if c.V6 {
		if len(got.IP) != 16 {
			return 0, core.Violate("C05/v6/ip-not-16-bytes", "allocation %v: address has %d bytes", got, len(got.IP))
		}
		q := m.index6(got.IP)
		if q.Sign() < 0 || q.Cmp(new(big.Int).SetUint64(m.n)) >= 0 {
			return 0, core.Violate("C05/v6/outside-pool", "allocation %s is outside pool %s/%d", got.String(), c.Base, c.PoolLen)
		}
		idx := q.Uint64()
		want, _ := m.addr6(q, 0)
		if !want.Equal(got.IP) {
			return 0, core.Violate("C05/v6/misaligned", "allocation %s is not aligned to /%d (block base %s)", got.String(), c.Page, want)
		}
		ones, bits := got.Mask.Size()
		wantLen := c.Page
		if rh.v6Canon && rh.canonLen > wantLen {
			wantLen = rh.canonLen
		}
		if bits != 128 || ones != wantLen {
			return 0, core.Violate("C05/v6/wrong-length", "allocation %s has length %d/%d, want /%d (page %d, hint mask %v)", got.String(), ones, bits, wantLen, c.Page, rh.ipnet.Mask)
		}
		_ = P
		return idx, nil
	}
	ip4 := got.IP.To4()
	if ip4 == nil {
		return 0, core.Violate("C05/v4/not-ipv4", "allocation %v is not an IPv4 address", got)
	}
	v := uint32(ip4[0])<<24 | uint32(ip4[1])<<16 | uint32(ip4[2])<<8 | uint32(ip4[3])
	if v < c.Start || v > c.Start+c.N-1 {
		return 0, core.Violate("C05/v4/outside-range", "allocation %s outside [%s,%s]", got.IP, u32ip(c.Start, false), u32ip(c.Start+c.N-1, false))
	}
	ones, bits := got.Mask.Size()
	if ones != 32 || bits != 32 {
		return 0, core.Violate("C05/v4/not-slash32", "allocation %s has mask %d/%d, want /32", got.IP, ones, bits)
	}
	return uint64(v - c.Start), nil
}

// Exec runs one case against the real allocator and the model.
func Exec(c Case) (res core.Result) {
	defer func() {
		if r := recover(); r != nil {
			core.HarnessPanic(r)
			res.Viol = core.Violate(c.Mode+"/panic", "allocator panicked: %v", r)
		}
		// only the assertions of the property being decided are armed: a case
		// that trips over another property's oracle is abandoned, not reported
		if res.Viol != nil && !strings.HasPrefix(res.Viol.Signature, c.Mode+"/") {
			res = core.Result{Classes: []string{"abandoned:" + res.Viol.Signature[:3]}}
		}
	}()
	a, err := newAllocator(&c)
	if err != nil {
		res.Viol = core.Violate(c.Mode+"/constructor-rejects-valid-pool", "constructor failed on a valid pool: %v", err)
		return
	}
	m := newModel(&c)
	sawFull, sawRealloc, sawMustFailFree, sawHintNonFirst := false, false, false, false
	conc := false
	everFreed := map[uint64]bool{}
	retained := map[uint64]net.IP{} // the address slices Allocate returned, as they are now
	fam := "v4"
	if c.V6 {
		fam = "v6"
	}
	for i, op := range c.Ops {
		if !op.Free {
			rh := m.resolveHint(op.H)
			got, err := a.Allocate(rh.ipnet)
			full := uint64(len(m.held)) == m.n
			if err != nil {
				if !full {
					res.Viol = core.Violate("C05/"+fam+"/alloc-fails-while-not-full", "op %d: Allocate(%v) failed (%v) with %d of %d blocks outstanding", i, rh.ipnet, err, len(m.held), m.n)
					return
				}
				if !errors.Is(err, allocators.ErrNoAddrAvail) {
					res.Viol = core.Violate("C05/"+fam+"/wrong-error-when-full", "op %d: full pool reports %v, want ErrNoAddrAvail", i, err)
					return
				}
				sawFull = true
				continue
			}
			if full {
				res.Viol = core.Violate("C05/"+fam+"/alloc-succeeds-when-full", "op %d: Allocate(%v) returned %s although all %d blocks are outstanding", i, rh.ipnet, got.String(), m.n)
				return
			}
			idx, v := m.checkBlock(got, rh)
			if v != nil && !strings.HasPrefix(v.Signature, c.Mode+"/") {
				// the shape of the allocation is another property's business: if the block it lies
				// in can still be told, the history goes on with that block (what a malformed
				// allocation does to later calls is this property's business again)
				if li, ok := m.lenientIndex(got); ok {
					idx, v = li, nil
					res.Classes = append(res.Classes, "malformed-allocation-tolerated")
				}
			}
			if v != nil {
				v.Message = fmt.Sprintf("op %d: %s", i, v.Message)
				res.Viol = v
				return
			}
			if m.held[idx] {
				res.Viol = core.Violate("C04/"+fam+"/block-handed-out-twice", "op %d: Allocate(%v) returned block %d (%s) which is still outstanding", i, rh.ipnet, idx, got.String())
				return
			}
			if rh.names && !m.held[rh.idx] && idx != rh.idx {
				res.Viol = core.Violate("C07/"+fam+"/hint-on-free-block-not-honoured", "op %d: hint %v names free block %d, got block %d (%s)", i, rh.ipnet, rh.idx, idx, got.String())
				return
			}
			if rh.names && !m.held[rh.idx] {
				if first, _ := m.kthFree(0); first != rh.idx {
					sawHintNonFirst = true
				}
			}
			if everFreed[idx] {
				sawRealloc = true
			}
			m.held[idx] = true
			retained[idx] = got.IP
			continue
		}
		if op.F.Kind == "wider" {
			idx, ok := m.kthHeld(op.F.K)
			if op.F.K%2 == 0 && m.held[0] {
				idx, ok = 0, true // the first block is the one whose address may be shared with the pool's
			}
			ip := retained[idx]
			if !ok || !c.V6 || ip == nil || c.PoolLen == 0 {
				continue
			}
			l := op.F.Sub % c.PoolLen
			mask := net.CIDRMask(l, 128)
			_, pool, _ := net.ParseCIDR(fmt.Sprintf("%s/%d", c.Base, c.PoolLen))
			if pool == nil || pool.Contains(ip.Mask(mask)) {
				continue // a super-block that starts inside the pool: not defined
			}
			// the very slice Allocate returned goes back in: a caller may do that
			err := a.Free(net.IPNet{IP: ip, Mask: mask})
			sawMustFailFree = true
			res.Classes = append(res.Classes, "free-wider-than-pool")
			if err == nil && c.Mode == "C06" {
				res.Viol = core.Violate("C06/"+fam+"/free-of-foreign-prefix-succeeds/wider", "op %d: Free(%s/%d), a prefix that starts below the pool (%s/%d), returned nil with %d blocks outstanding", i, ip, l, c.Base, c.PoolLen, len(m.held))
				return
			}
			// other modes: nothing was released as far as the model is concerned; what the call did to
			// later allocations is their business
			continue
		}
		rf := m.resolveFree(op.F)
		if !rf.valid {
			continue
		}
		err := a.Free(rf.ipnet)
		mustSucceed := rf.inBlock && m.held[rf.idx]
		if mustSucceed {
			if err != nil && c.Mode == "C04" {
				// whether this Free may fail is C06's business; for C04 the Free was not successful,
				// so the block is still outstanding and must not be handed out again
				res.Classes = append(res.Classes, "failed-free-tolerated")
				continue
			}
			if err != nil {
				res.Viol = core.Violate("C06/"+fam+"/free-of-outstanding-fails", "op %d: Free(%s) of outstanding block %d failed: %v", i, rf.ipnet.String(), rf.idx, err)
				return
			}
			delete(m.held, rf.idx)
			everFreed[rf.idx] = true
		} else {
			if len(m.held) > 0 {
				sawMustFailFree = true
			}
			if err == nil {
				res.Viol = core.Violate("C06/"+fam+"/free-of-foreign-prefix-succeeds/"+op.F.Kind, "op %d: Free(%s) (%s, not an outstanding block) returned nil with %d blocks outstanding", i, rf.ipnet.String(), op.F.Kind, len(m.held))
				return
			}
		}
	}

	if len(c.Conc) > 0 {
		conc = true
		if v := m.runConcurrent(a, c.Conc); v != nil {
			res.Viol = v
			return
		}
	}

	if c.Churn != nil {
		conc = true
		if v := m.runChurn(a, c.Churn); v != nil {
			res.Viol = v
			return
		}
		res.Classes = append(res.Classes, "churn")
	}

	for _, k := range c.FreeRace {
		idx, ok := m.kthHeld(k)
		if !ok {
			break
		}
		conc = true
		var ipn net.IPNet
		if c.V6 {
			ip, _ := m.addr6(new(big.Int).SetUint64(idx), 0)
			ipn = net.IPNet{IP: ip, Mask: net.CIDRMask(c.Page, 128)}
		} else {
			ipn = net.IPNet{IP: u32ip(c.Start+uint32(idx), false), Mask: net.CIDRMask(32, 32)}
		}
		g := c.FreeRaceG
		if g < 2 {
			g = 2
		}
		// the window between "is it outstanding?" and "release it" is narrow: many rounds on the same block
		for round := 0; round < 150; round++ {
			var wg sync.WaitGroup
			var okCount atomic.Int32
			start := make(chan struct{})
			for i := 0; i < g; i++ {
				wg.Add(1)
				go func() {
					defer wg.Done()
					defer func() { recover() }()
					<-start
					if a.Free(ipn) == nil {
						okCount.Add(1)
					}
				}()
			}
			close(start)
			if !core.WaitTimeout(&wg, nil, 60*time.Second) {
				res.Viol = core.Violate("C06/wedged", "concurrent Free calls did not return")
				return
			}
			if n := okCount.Load(); n != 1 {
				res.Viol = core.Violate("C06/"+fam+"/concurrent-free-of-one-block", "round %d: %d goroutines freed outstanding block %d (%s) at once: %d of them succeeded, in every serial order exactly one does", round, g, idx, ipn.String(), n)
				return
			}
			// take the block again for the next round (a hint on a free block is honoured: C07)
			got, err := a.Allocate(ipn)
			if err != nil || !got.IP.Equal(ipn.IP) {
				// some other block came back: abandon the phase, other properties speak about that
				if err == nil {
					if j, v := m.checkBlock(got, resolvedHint{v6Canon: c.V6, canonLen: c.Page}); v == nil {
						m.held[j] = true
					}
				}
				delete(m.held, idx)
				break
			}
		}
		if m.held[idx] {
			if a.Free(ipn) != nil {
				res.Viol = core.Violate("C06/"+fam+"/free-of-outstanding-fails", "Free(%s) of outstanding block %d failed after the concurrent rounds", ipn.String(), idx)
				return
			}
			delete(m.held, idx)
		}
	}

	// drain: hint-less Allocate until failure must return exactly the complement of held
	want := m.n - uint64(len(m.held))
	seen := map[uint64]bool{}
	for k := uint64(0); ; k++ {
		got, err := a.Allocate(net.IPNet{})
		if err != nil {
			if !errors.Is(err, allocators.ErrNoAddrAvail) {
				res.Viol = core.Violate("C05/"+fam+"/wrong-error-when-full", "drain: %v, want ErrNoAddrAvail", err)
				return
			}
			break
		}
		if k >= want {
			res.Viol = core.Violate(c.Mode+"/"+fam+"/drain-yields-too-many", "drain: allocation #%d (%s) succeeded although only %d of %d blocks were free: a block was released that somebody still holds", k+1, got.String(), want, m.n)
			return
		}
		idx, v := m.checkBlock(got, resolvedHint{})
		if v != nil {
			v.Message = "drain: " + v.Message
			res.Viol = v
			return
		}
		if m.held[idx] || seen[idx] {
			res.Viol = core.Violate(c.Mode+"/"+fam+"/drain-returns-outstanding-block", "drain: block %d (%s) returned although outstanding", idx, got.String())
			return
		}
		seen[idx] = true
	}
	if uint64(len(seen)) != want {
		res.Viol = core.Violate(c.Mode+"/"+fam+"/drain-yields-too-few", "drain: pool of %d blocks with %d outstanding yielded %d further allocations, want %d (a block was lost)", m.n, len(m.held), len(seen), want)
		return
	}

	straddle := c.V6 && c.PoolLen < 64 && c.Page > 64
	switch c.Mode {
	case "C04":
		res.NonTrivial = sawRealloc || conc
	case "C05":
		res.NonTrivial = sawFull || straddle
	case "C06":
		res.NonTrivial = sawMustFailFree || len(c.FreeRace) > 0
	case "C07":
		res.NonTrivial = sawHintNonFirst || c.Churn != nil
	}
	res.Classes = append(res.Classes, fam)
	if sawFull {
		res.Classes = append(res.Classes, "exhausted")
	}
	if sawRealloc {
		res.Classes = append(res.Classes, "realloc-after-free")
	}
	if conc {
		res.Classes = append(res.Classes, "concurrent")
	}
	if c.V6 {
		switch {
		case c.Page <= 64:
			res.Classes = append(res.Classes, "page<=64")
		case c.PoolLen < 64:
			res.Classes = append(res.Classes, "straddles-64")
		default:
			res.Classes = append(res.Classes, "pool>=64")
		}
	}
	if sawMustFailFree {
		res.Classes = append(res.Classes, "free-must-fail")
	}
	if sawHintNonFirst {
		res.Classes = append(res.Classes, "hint-nonfirst-free")
	}
	return
}

// runConcurrent runs the goroutine scripts on the shared allocator. owner[idx]
// is CAS-ed 0->g+1 on every successful Allocate and reset before the matching
// Free: a failed CAS means a block was handed out twice, whatever the schedule.
func (m *model) runConcurrent(a allocators.Allocator, scripts [][]ConcOp) *core.Violation {
	owner := make([]atomic.Int32, m.n)
	for idx := range m.held {
		owner[idx].Store(-1) // held by the sequential phase
	}
	var (
		wg    sync.WaitGroup
		vmu   sync.Mutex
		viol  *core.Violation
		start = make(chan struct{})
		heldG = make([][]uint64, len(scripts))
	)
	report := func(v *core.Violation) {
		vmu.Lock()
		if viol == nil {
			viol = v
		}
		vmu.Unlock()
	}
	fam := "v4"
	if m.c.V6 {
		fam = "v6"
	}
	for g := range scripts {
		wg.Add(1)
		go func(g int) {
			defer wg.Done()
			defer func() {
				if r := recover(); r != nil {
					core.HarnessPanic(r)
					report(core.Violate(m.c.Mode+"/panic", "allocator panicked in concurrent phase: %v", r))
				}
			}()
			<-start
			var mine []uint64
			for _, op := range scripts[g] {
				if op.Free {
					if len(mine) == 0 {
						continue
					}
					j := int(op.J % uint64(len(mine)))
					idx := mine[j]
					mine = append(mine[:j], mine[j+1:]...)
					owner[idx].Store(0)
					var ipn net.IPNet
					if m.c.V6 {
						ip, _ := m.addr6(new(big.Int).SetUint64(idx), 0)
						ipn = net.IPNet{IP: ip, Mask: net.CIDRMask(m.c.Page, 128)}
					} else {
						ipn = net.IPNet{IP: u32ip(m.c.Start+uint32(idx), false), Mask: net.CIDRMask(32, 32)}
					}
					if err := a.Free(ipn); err != nil {
						report(core.Violate("C06/"+fam+"/free-of-outstanding-fails", "concurrent: goroutine %d: Free(%s) of its own block %d failed: %v", g, ipn.String(), idx, err))
						return
					}
					continue
				}
				var hint net.IPNet
				if op.Hinted {
					hi := op.HintIdx % m.n
					if m.c.V6 {
						ip, _ := m.addr6(new(big.Int).SetUint64(hi), 0)
						hint = net.IPNet{IP: ip, Mask: net.CIDRMask(m.c.Page, 128)}
					} else {
						hint = net.IPNet{IP: u32ip(m.c.Start+uint32(hi), false)}
					}
				}
				got, err := a.Allocate(hint)
				if err != nil {
					continue
				}
				idx, v := m.checkBlock(got, resolvedHint{v6Canon: op.Hinted && m.c.V6, canonLen: m.c.Page})
				if v != nil {
					v.Message = fmt.Sprintf("concurrent: goroutine %d: %s", g, v.Message)
					report(v)
					return
				}
				if !owner[idx].CompareAndSwap(0, int32(g+1)) {
					report(core.Violate("C04/"+fam+"/block-handed-out-twice", "concurrent: goroutine %d was given block %d (%s) which goroutine/phase %d still holds", g, idx, got.String(), owner[idx].Load()))
					return
				}
				mine = append(mine, idx)
			}
			heldG[g] = mine
		}(g)
	}
	close(start)
	if !core.WaitTimeout(&wg, nil, 60*time.Second) {
		return core.Violate(m.c.Mode+"/wedged", "concurrent phase: allocator calls did not return within 60 s")
	}
	if viol != nil {
		return viol
	}
	for _, mine := range heldG {
		for _, idx := range mine {
			m.held[idx] = true
		}
	}
	return nil
}

// blockNet is the canonical prefix of block idx
func (m *model) blockNet(idx uint64) net.IPNet {
	if m.c.V6 {
		ip, _ := m.addr6(new(big.Int).SetUint64(idx), 0)
		return net.IPNet{IP: ip, Mask: net.CIDRMask(m.c.Page, 128)}
	}
	return net.IPNet{IP: u32ip(m.c.Start+uint32(idx), false), Mask: net.CIDRMask(32, 32)}
}

// runChurn: goroutines take and release blocks of their own as fast as they can. Every serial
// order of these calls leaves exactly the blocks of the sequential phase outstanding, so
// afterwards a hint on any other block names a free block and must be honoured (C07), and no
// goroutine may ever be given a block somebody holds (C04).
func (m *model) runChurn(a allocators.Allocator, ch *Churn) *core.Violation {
	owner := make([]atomic.Int32, m.n)
	for idx := range m.held {
		owner[idx].Store(-1)
	}
	var (
		wg    sync.WaitGroup
		vmu   sync.Mutex
		viol  *core.Violation
		start = make(chan struct{})
	)
	report := func(v *core.Violation) {
		vmu.Lock()
		if viol == nil {
			viol = v
		}
		vmu.Unlock()
	}
	fam := "v4"
	if m.c.V6 {
		fam = "v6"
	}
	for g := 0; g < ch.G; g++ {
		wg.Add(1)
		go func(g int) {
			defer wg.Done()
			defer func() {
				if r := recover(); r != nil {
					core.HarnessPanic(r)
					report(core.Violate(m.c.Mode+"/panic", "allocator panicked in the allocate/free storm: %v", r))
				}
			}()
			<-start
			var mine []uint64
			last, haveLast := uint64(0), false
			release := func(j int) bool {
				idx := mine[j]
				mine = append(mine[:j], mine[j+1:]...)
				owner[idx].Store(0)
				if err := a.Free(m.blockNet(idx)); err != nil {
					report(core.Violate("C06/"+fam+"/free-of-outstanding-fails", "storm: goroutine %d: Free of its own block %d failed: %v", g, idx, err))
					return false
				}
				last, haveLast = idx, true
				return true
			}
			for it := 0; it < ch.Iter; it++ {
				var hint net.IPNet
				if ch.Hinted && haveLast && it%2 == 1 {
					hint = m.blockNet(last)
					if !m.c.V6 {
						hint.Mask = nil
					}
				}
				got, err := a.Allocate(hint)
				if err == nil {
					idx, v := m.checkBlock(got, resolvedHint{v6Canon: hint.IP != nil && m.c.V6, canonLen: m.c.Page})
					if v != nil {
						v.Message = fmt.Sprintf("storm: goroutine %d: %s", g, v.Message)
						report(v)
						return
					}
					if !owner[idx].CompareAndSwap(0, int32(g+1)) {
						report(core.Violate("C04/"+fam+"/block-handed-out-twice", "storm: goroutine %d was given block %d (%s) which goroutine/phase %d still holds", g, idx, got.String(), owner[idx].Load()))
						return
					}
					mine = append(mine, idx)
				}
				for len(mine) > ch.Keep || (err != nil && len(mine) > 0) {
					if !release(0) {
						return
					}
					err = nil
				}
			}
			for len(mine) > 0 {
				if !release(len(mine) - 1) {
					return
				}
			}
		}(g)
	}
	close(start)
	if !core.WaitTimeout(&wg, nil, 60*time.Second) {
		return core.Violate(m.c.Mode+"/wedged", "allocate/free storm: allocator calls did not return within 60 s")
	}
	if viol != nil {
		return viol
	}
	// every block outside the sequential phase's holdings is free now: ask for each by hint
	probed := 0
	for idx := uint64(0); idx < m.n && probed < 192; idx++ {
		if m.held[idx] {
			continue
		}
		probed++
		hint := m.blockNet(idx)
		got, err := a.Allocate(hint)
		if err != nil {
			return core.Violate("C05/"+fam+"/alloc-fails-while-not-full", "after the storm: Allocate(%s) failed (%v) with %d of %d blocks outstanding", hint.String(), err, len(m.held), m.n)
		}
		j, v := m.checkBlock(got, resolvedHint{v6Canon: m.c.V6, canonLen: m.c.Page})
		if v != nil {
			v.Message = "after the storm: " + v.Message
			return v
		}
		if j != idx {
			return core.Violate("C07/"+fam+"/hint-on-free-block-not-honoured", "after %d goroutines took and released blocks %d times each, every block they used was freed successfully, yet the hint %s on free block %d was answered with block %d (%s)", ch.G, ch.Iter, hint.String(), idx, j, got.String())
		}
		if err := a.Free(hint); err != nil {
			return core.Violate("C06/"+fam+"/free-of-outstanding-fails", "after the storm: Free(%s) of outstanding block %d failed: %v", hint.String(), idx, err)
		}
	}
	return nil
}
