//go:build verif

package static

import (
	"encoding/hex"
	"fmt"
	"net"
	"strings"

	"pgregory.net/rapid"
	"verif/harness/gen"
)

func genMAC(t *rapid.T, pool int) string {
	n := rapid.SampledFrom([]int{6, 6, 6, 6, 6, 8, 20}).Draw(t, "maclen")
	b := make([]byte, n)
	// a small pool so that duplicates and near-misses happen
	b[0] = 0x02
	b[n-1] = byte(rapid.IntRange(0, pool).Draw(t, "mac-id"))
	if rapid.IntRange(0, 3).Draw(t, "mac-rand") == 0 {
		for i := 1; i < n-1; i++ {
			b[i] = rapid.Byte().Draw(t, "mac-byte")
		}
	}
	return hex.EncodeToString(b)
}

func genIPText(t *rapid.T, v6 bool) string {
	if !v6 {
		ip := net.IPv4(byte(rapid.IntRange(1, 223).Draw(t, "a")), rapid.Byte().Draw(t, "b"), rapid.Byte().Draw(t, "c"), rapid.Byte().Draw(t, "d"))
		if rapid.IntRange(0, 5).Draw(t, "v4mapped") == 0 {
			return "::ffff:" + ip.String()
		}
		return ip.String()
	}
	ip := make(net.IP, 16)
	copy(ip, net.ParseIP("2001:db8::"))
	for i := 8; i < 16; i++ {
		if rapid.IntRange(0, 2).Draw(t, "v6-zero") != 0 {
			ip[i] = rapid.Byte().Draw(t, "v6-byte")
		}
	}
	switch rapid.IntRange(0, 3).Draw(t, "v6-spelling") {
	case 0:
		return strings.ToUpper(ip.String())
	case 1:
		// fully expanded
		var g []string
		for i := 0; i < 16; i += 2 {
			g = append(g, fmt.Sprintf("%02x%02x", ip[i], ip[i+1]))
		}
		return strings.Join(g, ":")
	default:
		return ip.String()
	}
}

func genEntry(t *rapid.T, v6 bool, pool int) Line {
	l := Line{Kind: "entry", MAC: genMAC(t, pool), IP: genIPText(t, v6)}
	l.Style = rapid.SampledFrom([]int{0, 0, 1, 2, 3}).Draw(t, "style")
	l.Sep = rapid.SampledFrom([]string{" ", " ", "\t", "  ", " \t ", "\t\t"}).Draw(t, "sep")
	l.Trail = rapid.SampledFrom([]string{"", "", "", " ", "\t", "  "}).Draw(t, "trail")
	return l
}

func genLines(t *rapid.T, v6 bool, allowBad bool, min int) []Line {
	n := rapid.IntRange(min, 8).Draw(t, "nlines")
	pool := rapid.IntRange(1, 6).Draw(t, "macpool")
	var ls []Line
	for i := 0; i < n; i++ {
		switch rapid.IntRange(0, 9).Draw(t, "linekind") {
		case 0:
			ls = append(ls, Line{Kind: "comment", Text: rapid.SampledFrom([]string{"", " a comment", "02:00:00:00:00:01 10.0.0.1", "#", "\tx"}).Draw(t, "comment")})
		case 1:
			ls = append(ls, Line{Kind: "empty"})
		case 2, 3:
			// an earlier line once more, character for character (generated files repeat themselves;
			// with another line for the same client in between, the repeat is the last occurrence)
			if len(ls) > 0 {
				ls = append(ls, ls[rapid.IntRange(0, len(ls)-1).Draw(t, "again")])
			} else {
				ls = append(ls, genEntry(t, v6, pool))
			}
		default:
			ls = append(ls, genEntry(t, v6, pool))
		}
	}
	if allowBad && rapid.IntRange(0, 3).Draw(t, "malformed") == 0 {
		bad := genEntry(t, v6, pool)
		bad.Kind = rapid.SampledFrom([]string{"one-field", "three-fields", "bad-mac", "bad-ip", "wrong-family"}).Draw(t, "badkind")
		switch bad.Kind {
		case "bad-mac":
			bad.Text = rapid.SampledFrom([]string{"02:00:00:00:00", "zz:00:00:00:00:01", "0200.0000.00", "02:00:00:00:00:01:02", "02-00:00-00:00:01x", "2:0:0:0:0:1"}).Draw(t, "badmac")
		case "bad-ip":
			bad.IP = rapid.SampledFrom([]string{"bcde", "10.0.0", "10.0.0.256", "2001:db8:::1", "10.0.0.1/24", "fe80::1%eth0", "010.0.0.1"}).Draw(t, "badip")
		case "wrong-family":
			bad.IP = genIPText(t, !v6)
			if v6 && strings.HasPrefix(bad.IP, "::ffff:") {
				bad.IP = "10.1.2.3"
			}
			if !v6 && net.ParseIP(bad.IP).To4() != nil {
				bad.IP = "2001:db8::77"
			}
			if !v6 && rapid.IntRange(0, 2).Draw(t, "mixed-notation") == 0 {
				// an IPv6 address whose last 32 bits are written as a dotted quad: it has dots, it parses,
				// and it is not an IPv4 address
				bad.IP = rapid.SampledFrom([]string{"2001:db8::192.0.2.1", "64:ff9b::10.0.0.5", "::10.1.2.3", "fe80::1:10.0.0.1"}).Draw(t, "mixed")
			}
		}
		pos := rapid.IntRange(0, len(ls)).Draw(t, "badpos")
		ls = append(ls[:pos], append([]Line{bad}, ls[pos:]...)...)
	}
	// one very long line (around and beyond 64 KiB, where line readers give up): what follows
	// it, and the line itself, still count
	if len(ls) > 0 && rapid.IntRange(0, 9).Draw(t, "longline") == 0 {
		i := rapid.IntRange(0, len(ls)-1).Draw(t, "longpos")
		if ls[i].Kind == "empty" {
			ls[i] = Line{Kind: "comment"}
		}
		ls[i].Pad = rapid.SampledFrom([]int{4096, 65490, 65536, 66000, 70000, 140000}).Draw(t, "pad")
	}
	return ls
}

// noPad removes the long-line padding (refresh files are rewritten in place at a fixed length)
func noPad(ls []Line) []Line {
	for i := range ls {
		ls[i].Pad = 0
	}
	return ls
}

// GenStatic draws one lease file
func GenStatic(t *rapid.T) Case {
	c := Case{Sub: "static", V6: rapid.Bool().Draw(t, "v6")}
	c.Lines = genLines(t, c.V6, true, 0)
	c.NoNL = rapid.IntRange(0, 3).Draw(t, "nonl") == 0
	if !c.V6 && rapid.IntRange(0, 2).Draw(t, "hist") == 0 {
		// requests of every kind (any message type, ciaddr/giaddr, options) from listed and other clients
		var macs []string
		for _, l := range c.Lines {
			if l.Kind == "entry" && len(l.MAC) <= 32 {
				macs = append(macs, l.MAC)
			}
		}
		n := rapid.IntRange(1, 6).Draw(t, "nhist")
		for i := 0; i < n; i++ {
			p := gen.GenPkt4(t)
			if len(macs) > 0 && rapid.IntRange(0, 3).Draw(t, "listed") > 0 {
				p.CHAddr = rapid.SampledFrom(macs).Draw(t, "hist-mac")
				p.HLen, p.Op, p.HType = uint8(len(p.CHAddr)/2), 1, 1
			}
			c.Hist = append(c.Hist, hex.EncodeToString(p.Bytes()))
		}
	}
	return c
}

// GenRefresh draws an autorefresh scenario
func GenRefresh(t *rapid.T) Case {
	c := Case{Sub: "refresh", V6: rapid.Bool().Draw(t, "v6")}
	c.Spell = rapid.SampledFrom([]int{0, 0, 1, 2, 3}).Draw(t, "spell")
	c.Lines = noPad(genLines(t, c.V6, false, 1))
	n := rapid.IntRange(2, 6).Draw(t, "nrewrites")
	for i := 0; i < n; i++ {
		rw := Rewrite{Pause: rapid.SampledFrom([]int{0, 0, 0, 1, 5, 30}).Draw(t, "pause")}
		bad := rapid.IntRange(0, 2).Draw(t, "bad-rewrite") == 0
		rw.Lines = noPad(genLines(t, c.V6, false, 1))
		if bad {
			b := genEntry(t, c.V6, 3)
			b.Kind = rapid.SampledFrom([]string{"one-field", "three-fields", "bad-mac", "bad-ip", "wrong-family"}).Draw(t, "badkind")
			b.Text = "zz:00:00:00:00:01"
			if b.Kind == "bad-ip" {
				b.IP = "bcde"
			}
			if b.Kind == "wrong-family" {
				if c.V6 {
					b.IP = "10.1.2.3"
				} else {
					b.IP = "2001:db8::77"
				}
			}
			pos := rapid.IntRange(0, len(rw.Lines)).Draw(t, "badpos")
			rw.Lines = append(rw.Lines[:pos], append([]Line{b}, rw.Lines[pos:]...)...)
		} else if rapid.IntRange(0, 3).Draw(t, "append") == 0 {
			rw.Append = true
		} else if rapid.IntRange(0, 3).Draw(t, "burst") == 0 {
			rw.BigLines = noPad(genLines(t, c.V6, false, 1))
			rw.Filler = rapid.SampledFrom([]int{2000, 8000, 20000}).Draw(t, "filler")
		}
		c.Rewrites = append(c.Rewrites, rw)
	}
	return c
}

// GenDual draws a dual-stack configuration
func GenDual(t *rapid.T) Case {
	c := Case{Sub: "dual"}
	c.Lines = genLines(t, false, false, 1)
	c.Lines6 = genLines(t, true, false, 1)
	c.V6First = rapid.Bool().Draw(t, "v6first")
	c.Spell = rapid.SampledFrom([]int{0, 0, 0, 1, 2, 3}).Draw(t, "spell")
	if rapid.IntRange(0, 2).Draw(t, "dual-refresh") == 0 {
		// files that are rewritten in place have a fixed length: no very long lines
		c.Lines, c.Lines6 = noPad(c.Lines), noPad(c.Lines6)
		c.Refresh4, c.Refresh6 = rapid.Bool().Draw(t, "refresh4"), rapid.Bool().Draw(t, "refresh6")
		if !c.Refresh4 && !c.Refresh6 {
			c.Refresh6 = true
		}
		n := rapid.IntRange(1, 3).Draw(t, "nrewrites")
		for i := 0; i < n; i++ {
			rw := Rewrite{Target6: rapid.Bool().Draw(t, "target6")}
			// mostly well-formed for the target; sometimes a file of the other family (malformed for it)
			fam := rw.Target6
			if rapid.IntRange(0, 3).Draw(t, "other-family") == 0 {
				fam = !fam
			}
			rw.Lines = noPad(genLines(t, fam, false, 1))
			c.Rewrites = append(c.Rewrites, rw)
		}
	}
	return c
}
