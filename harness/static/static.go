//go:build verif

// Package static decides C10 (static lease file: served mapping equals the
// file, updates are all-or-nothing, each protocol serves from its own file).
package static

import (
	"bytes"
	"encoding/hex"
	"errors"
	"fmt"
	"net"
	"os"
	"path/filepath"
	"sort"
	"strings"
	"sync"
	"sync/atomic"
	"syscall"
	"time"

	"github.com/coredhcp/coredhcp/handler"
	"golang.org/x/net/ipv4"
	"github.com/coredhcp/coredhcp/server"
	"github.com/coredhcp/coredhcp/plugins/file"
	"github.com/insomniacslk/dhcp/dhcpv4"
	"github.com/insomniacslk/dhcp/dhcpv6"
	"verif/harness/core"
	"verif/harness/gen"
)

// Line is one line of a lease file
type Line struct {
	// Kind: entry | comment | empty | one-field | three-fields | bad-mac | bad-ip | wrong-family
	Kind string `json:"kind"`
	MAC  string `json:"mac,omitempty"` // hex
	// Style: 0 colon lower, 1 colon upper, 2 hyphen, 3 dotted quads
	Style int    `json:"style,omitempty"`
	IP    string `json:"ip,omitempty"` // as written
	Sep   string `json:"sep,omitempty"`
	Trail string `json:"trail,omitempty"`
	Text  string `json:"text,omitempty"`
	// Pad lengthens the line by that many bytes without changing what it says: comment text
	// for a comment, trailing blanks otherwise (lines longer than common buffer sizes)
	Pad int `json:"pad,omitempty"`
}

// Rewrite is one rewrite of the file under autorefresh
type Rewrite struct {
	Lines []Line `json:"lines"`
	// Append: add the lines to the file with one O_APPEND write instead of rewriting it in place
	Append bool `json:"append,omitempty"`
	// Pause: milliseconds to wait before this rewrite (0 = back to back with the previous one)
	Pause int `json:"pause,omitempty"`
	// Burst: the rewrite is preceded, with nothing in between, by a rewrite to a large
	// well-formed file (BigLines followed by Filler generated entries): two updates whose
	// reloads can overlap; the later content must win and stay
	Filler   int    `json:"filler,omitempty"`
	BigLines []Line `json:"biglines,omitempty"`
	// Target6 (dual-stack cases): the rewrite is of the DHCPv6 instance's file
	Target6 bool `json:"target6,omitempty"`
}

// fillerText renders n generated entries (hardware addresses no probe uses)
func fillerText(n int, v6 bool) string {
	var sb strings.Builder
	sb.Grow(n * 40)
	for i := 0; i < n; i++ {
		if v6 {
			fmt.Fprintf(&sb, "02:ff:00:%02x:%02x:%02x 2001:db8:f::%x\n", byte(i>>16), byte(i>>8), byte(i), i+1)
		} else {
			fmt.Fprintf(&sb, "02:ff:00:%02x:%02x:%02x 10.%d.%d.%d\n", byte(i>>16), byte(i>>8), byte(i), byte(i>>16), byte(i>>8), byte(i))
		}
	}
	return sb.String()
}

// Case is one lease-file scenario
type Case struct {
	Sub   string `json:"sub"` // static | refresh | dual
	V6    bool   `json:"v6,omitempty"`
	Lines []Line `json:"lines"`
	NoNL  bool   `json:"nonl,omitempty"` // no final newline
	// Hist (static, DHCPv4): datagrams (hex) that go through the server (HandleMsg4 with the file plugin
	// as the whole chain) before the mapping is probed a second time: what clients send must
	// not change what the file says
	Hist []string `json:"hist,omitempty"`
	// refresh
	Rewrites []Rewrite `json:"rewrites,omitempty"`
	// Spell (refresh, dual): how the plugin argument spells the file name (0 canonical, 1 with a
	// "." element, 2 doubled separator, 3 through a sub-directory and back)
	Spell int `json:"spell,omitempty"`
	// dual: Lines is the DHCPv4 file, Lines6 the DHCPv6 file
	Lines6   []Line `json:"lines6,omitempty"`
	V6First  bool   `json:"v6first,omitempty"`
	Refresh4 bool   `json:"refresh4,omitempty"`
	Refresh6 bool   `json:"refresh6,omitempty"`
}

func macText(b []byte, style int) string {
	hx := make([]string, len(b))
	for i, x := range b {
		hx[i] = fmt.Sprintf("%02x", x)
	}
	switch style {
	case 1:
		return strings.ToUpper(strings.Join(hx, ":"))
	case 2:
		return strings.Join(hx, "-")
	case 3:
		if len(b)%2 == 0 {
			var q []string
			for i := 0; i < len(b); i += 2 {
				q = append(q, hx[i]+hx[i+1])
			}
			return strings.Join(q, ".")
		}
	}
	return strings.Join(hx, ":")
}

// Render produces the file text
func Render(lines []Line, noFinalNL bool) string {
	var sb strings.Builder
	for i, l := range lines {
		sep := l.Sep
		if sep == "" {
			sep = " "
		}
		mac, _ := hex.DecodeString(l.MAC)
		switch l.Kind {
		case "entry", "wrong-family", "bad-ip":
			sb.WriteString(macText(mac, l.Style) + sep + l.IP + l.Trail)
		case "comment":
			sb.WriteString("#" + l.Text)
		case "empty":
		case "one-field":
			sb.WriteString(macText(mac, l.Style))
		case "three-fields":
			sb.WriteString(macText(mac, l.Style) + sep + l.IP + " extra")
		case "bad-mac":
			sb.WriteString(l.Text + sep + l.IP)
		}
		if l.Pad > 0 && l.Kind != "empty" {
			ch := " "
			if l.Kind == "comment" {
				ch = "x"
			}
			sb.WriteString(strings.Repeat(ch, l.Pad))
		}
		if i < len(lines)-1 || !noFinalNL {
			sb.WriteString("\n")
		}
	}
	return sb.String()
}

// clip shortens a file text for messages
func clip(text string) string {
	if len(text) <= 3000 {
		return text
	}
	return text[:1500] + fmt.Sprintf("\n...[%d bytes]...\n", len(text)-2500) + text[len(text)-1000:]
}

// ParseModel is the harness's own reading of a lease file: nil + error when
// any line is malformed, else hardware address (hex) -> address, last wins
func ParseModel(text string, v6 bool) (map[string]net.IP, error) {
	m := map[string]net.IP{}
	for n, line := range strings.Split(text, "\n") {
		if line == "" || line[0] == '#' {
			continue
		}
		var toks []string
		cur := ""
		for _, r := range line {
			if r == ' ' || r == '\t' {
				if cur != "" {
					toks = append(toks, cur)
					cur = ""
				}
				continue
			}
			cur += string(r)
		}
		if cur != "" {
			toks = append(toks, cur)
		}
		if len(toks) != 2 {
			return nil, fmt.Errorf("line %d: %d fields", n+1, len(toks))
		}
		hw, err := net.ParseMAC(toks[0])
		if err != nil {
			return nil, fmt.Errorf("line %d: bad hardware address", n+1)
		}
		ip := net.ParseIP(toks[1])
		if ip == nil {
			return nil, fmt.Errorf("line %d: bad address", n+1)
		}
		if v6 == (ip.To4() != nil) {
			return nil, fmt.Errorf("line %d: wrong address family", n+1)
		}
		m[hex.EncodeToString(hw)] = ip
	}
	return m, nil
}

var (
	scratchOnce sync.Once
	scratchDir  string
	fileSeq     atomic.Int64
	watchers    atomic.Int64
)

func scratch() string {
	scratchOnce.Do(func() {
		for _, base := range []string{os.Getenv("VERIF_WORK"), "/dev/shm", os.TempDir()} {
			if base == "" {
				continue
			}
			if d, err := os.MkdirTemp(base, "verif-static-"); err == nil {
				scratchDir = d
				return
			}
		}
	})
	return scratchDir
}

// Cleanup removes the scratch directory
func Cleanup() {
	if scratchDir != "" {
		os.RemoveAll(scratchDir)
	}
}

// spelled is the same file written the way a configuration might write it: with a "." element,
// a doubled separator or a detour through a sub-directory (k = 0: as it is)
func spelled(path string, k int) string {
	dir, base := filepath.Dir(path), filepath.Base(path)
	switch k {
	case 1:
		return dir + "/./" + base
	case 2:
		return dir + "//" + base
	case 3:
		os.MkdirAll(filepath.Join(dir, "sub"), 0o755)
		return dir + "/sub/../" + base
	}
	return path
}

func newFile(text string) string {
	p := filepath.Join(scratch(), fmt.Sprintf("leases-%d.txt", fileSeq.Add(1)))
	os.WriteFile(p, []byte(text), 0o644)
	return p
}

// ---- probes -----------------------------------------------------------------

// lookup4 asks the DHCPv4 handler about one hardware address: returns the
// address served (nil if the plugin passed) or a violation of the reply shape
func lookup4(h handler.Handler4, hw []byte) (net.IP, *core.Violation) {
	p := gen.Pkt4{Op: 1, HType: 1, HLen: uint8(len(hw)), Xid: 0xf11e, CHAddr: hex.EncodeToString(hw)}
	p.Opts = []gen.Opt4{{Code: 53, Hex: "01"}}
	req, stub, ok := gen.Stub4(p.Bytes())
	if !ok {
		return nil, core.Violate("C10/harness", "bad probe")
	}
	before := stub.ToBytes()
	var out *dhcpv4.DHCPv4
	var stop bool
	returned, pan := core.Call(20*time.Second, func() { out, stop = h(req, stub) })
	if pan != nil {
		panic(pan)
	}
	if !returned {
		return nil, core.Violate("C10/wedged", "the DHCPv4 handler did not return within 20 s (lookup of %x)", hw)
	}
	if out == nil {
		return nil, core.Violate("C10/v4/nil-reply", "handler returned nil for %x", hw)
	}
	after := out.ToBytes()
	if !stop {
		if !bytes.Equal(before, after) {
			return nil, core.Violate("C10/v4/unlisted-client-modified", "handler passed the request of %x on (stop=false) but modified the reply", hw)
		}
		return nil, nil
	}
	yi := net.IP(after[16:20])
	rest := append([]byte(nil), after...)
	copy(rest[16:20], before[16:20])
	if !bytes.Equal(rest, before) {
		return nil, core.Violate("C10/v4/reply-modified-beyond-yiaddr", "handler changed more than yiaddr for %x", hw)
	}
	return yi, nil
}

// req6 builds a DHCPv6 request from hardware address hw; via: duid | lladdr | eui64
func req6(hw []byte, via string, withIANA bool, mt uint8) []byte {
	var cid []byte
	if via == "duid" {
		cid = gen.DUIDLL(1, hw)
		if len(hw)%3 == 0 && len(hw) > 0 && hw[0]&1 == 1 {
			cid = gen.DUIDLLT(1, 12345, hw)
		}
	} else {
		cid = gen.DUIDEN(32473, []byte{1, 2, 3, 4})
	}
	opts := [][]byte{gen.Opt6(gen.O6ClientID, cid), gen.Opt6(gen.O6ElapsedTime, []byte{0, 0})}
	if withIANA {
		opts = append(opts, gen.IANA6([4]byte{0xa, 0xb, 0xc, 0xd}, 0, 0))
	}
	if mt != gen.M6Solicit {
		opts = append(opts, gen.Opt6(gen.O6ServerID, gen.DUIDLL(1, []byte{0, 0xde, 0xad, 0xbe, 0xef, 0})))
	}
	w := gen.Msg6(mt, 0xf11e06, opts...)
	switch via {
	case "lladdr":
		w = gen.Relay6(gen.M6RelayForw, 0, net.ParseIP("2001:db8::1"), net.ParseIP("fe80::1"), w, false, gen.Opt6(gen.O6ClientLLAddr, append([]byte{0, 1}, hw...)))
	case "eui64":
		peer := net.ParseIP("fe80::")
		copy(peer[8:11], hw[0:3])
		peer[8] ^= 0x02
		peer[11], peer[12] = 0xff, 0xfe
		copy(peer[13:16], hw[3:6])
		w = gen.Relay6(gen.M6RelayForw, 0, net.ParseIP("2001:db8::1"), peer, w, false)
		// a second, outer relay whose peer address is not the client's
		w = gen.Relay6(gen.M6RelayForw, 1, net.ParseIP("2001:db8::2"), net.ParseIP("2001:db8::1"), w, false)
	}
	return w
}

func lookup6(h handler.Handler6, hw []byte, via string, withIANA bool, mt uint8) (net.IP, *core.Violation) {
	req, _, stub, ok := gen.Stub6(req6(hw, via, withIANA, mt))
	if !ok {
		return nil, core.Violate("C10/harness", "bad v6 probe")
	}
	before, _ := gen.Options6(stub.ToBytes()[4:])
	var out dhcpv6.DHCPv6
	var stop bool
	returned, pan := core.Call(20*time.Second, func() { out, stop = h(req, stub) })
	if pan != nil {
		panic(pan)
	}
	if !returned {
		return nil, core.Violate("C10/wedged", "the DHCPv6 handler did not return within 20 s (lookup of %x)", hw)
	}
	if out == nil || stop {
		return nil, core.Violate("C10/v6/reply-dropped", "handler returned (nil=%v, stop=%v) for %x via %s", out == nil, stop, hw, via)
	}
	after, okp := gen.Options6(out.ToBytes()[4:])
	if !okp || len(after) < len(before) {
		return nil, core.Violate("C10/v6/reply-malformed", "reply options malformed")
	}
	for i := range before {
		if before[i].Code != after[i].Code || !bytes.Equal(before[i].Data, after[i].Data) {
			return nil, core.Violate("C10/v6/reply-modified", "handler changed existing options of the reply")
		}
	}
	added := after[len(before):]
	if len(added) == 0 {
		return nil, nil
	}
	if !withIANA {
		return nil, core.Violate("C10/v6/address-without-ia-na-request", "request of %x had no IA_NA but the reply got option %d", hw, added[0].Code)
	}
	if len(added) != 1 || added[0].Code != gen.O6IANA {
		return nil, core.Violate("C10/v6/unexpected-options", "reply got %d new options (first code %d), want exactly one IA_NA", len(added), added[0].Code)
	}
	d := added[0].Data
	if len(d) < 12 || !bytes.Equal(d[:4], []byte{0xa, 0xb, 0xc, 0xd}) {
		return nil, core.Violate("C10/v6/wrong-iaid", "IA_NA in the reply has IAID %x, the request's is 0a0b0c0d", d[:4])
	}
	sub, oks := gen.Options6(d[12:])
	if !oks || len(sub) != 1 || sub[0].Code != gen.O6IAAddr || len(sub[0].Data) < 24 {
		return nil, core.Violate("C10/v6/wrong-ia-na-content", "IA_NA in the reply does not contain exactly one address")
	}
	m, isMsg := out.(*dhcpv6.Message)
	_ = m
	_ = isMsg
	return net.IP(sub[0].Data[:16]), nil
}

// checkMapping4 probes every listed and some unlisted hardware addresses
func checkMapping4(h handler.Handler4, model map[string]net.IP, tag string) *core.Violation {
	keys := sortedKeys(model)
	for _, k := range keys {
		hw, _ := hex.DecodeString(k)
		if len(hw) > 16 {
			continue // cannot be a chaddr
		}
		got, v := lookup4(h, hw)
		if v != nil {
			return v
		}
		if got == nil {
			return core.Violate("C10/v4/listed-client-not-served"+tag, "hardware address %s is listed with %s but the plugin passed", k, model[k])
		}
		if !got.Equal(model[k]) {
			return core.Violate("C10/v4/wrong-address"+tag, "hardware address %s is listed with %s, served %s", k, model[k], got)
		}
	}
	for _, hw := range unlisted(model, keys) {
		if len(hw) > 16 {
			continue
		}
		got, v := lookup4(h, hw)
		if v != nil {
			return v
		}
		if got != nil {
			return core.Violate("C10/v4/unlisted-client-served"+tag, "hardware address %x is not in the file but was given %s", hw, got)
		}
	}
	return nil
}

func checkMapping6(h handler.Handler6, model map[string]net.IP, tag string) *core.Violation {
	keys := sortedKeys(model)
	for i, k := range keys {
		hw, _ := hex.DecodeString(k)
		vias := []string{"duid", "lladdr"}
		if len(hw) == 6 {
			vias = append(vias, "eui64")
		}
		for j, via := range vias {
			mt := []uint8{gen.M6Solicit, gen.M6Request, gen.M6Renew}[(i+j)%3]
			got, v := lookup6(h, hw, via, true, mt)
			if v != nil {
				return v
			}
			if got == nil {
				return core.Violate("C10/v6/listed-client-not-served"+tag, "hardware address %s (via %s) is listed with %s but got no IA_NA", k, via, model[k])
			}
			if !got.Equal(model[k]) {
				return core.Violate("C10/v6/wrong-address"+tag, "hardware address %s (via %s) is listed with %s, served %s", k, via, model[k], got)
			}
		}
		got, v := lookup6(h, hw, "duid", false, gen.M6Solicit)
		if v != nil {
			return v
		}
		if got != nil {
			return core.Violate("C10/v6/address-without-ia-na-request"+tag, "no IA_NA requested, yet %s served", got)
		}
	}
	for _, hw := range unlisted(model, keys) {
		got, v := lookup6(h, hw, "duid", true, gen.M6Solicit)
		if v != nil {
			return v
		}
		if got != nil {
			return core.Violate("C10/v6/unlisted-client-served"+tag, "hardware address %x is not in the file but was given %s", hw, got)
		}
	}
	return nil
}

func sortedKeys(m map[string]net.IP) []string {
	r := make([]string, 0, len(m))
	for k := range m {
		r = append(r, k)
	}
	sort.Strings(r)
	return r
}

// unlisted returns hardware addresses that are not in the model: a fixed one,
// near-misses (last bit flipped), and truncations of listed ones
func unlisted(model map[string]net.IP, keys []string) [][]byte {
	cands := [][]byte{{0x02, 0xfe, 0xed, 0xfa, 0xce, 0x99}}
	for _, k := range keys {
		hw, _ := hex.DecodeString(k)
		n := append([]byte(nil), hw...)
		n[len(n)-1] ^= 1
		cands = append(cands, n)
		if len(hw) == 8 {
			cands = append(cands, append([]byte(nil), hw[:6]...))
		}
		if len(hw) == 6 {
			cands = append(cands, append(append([]byte(nil), hw...), 0, 0))
		}
	}
	var out [][]byte
	for _, c := range cands {
		if _, ok := model[hex.EncodeToString(c)]; !ok {
			out = append(out, c)
		}
	}
	return out
}

func inotifyExhausted(err error) bool {
	return err != nil && (errors.Is(err, syscall.EMFILE) || errors.Is(err, syscall.ENOSPC) || strings.Contains(err.Error(), "too many open files") || strings.Contains(err.Error(), "no space left"))
}

// Exec runs one case
func Exec(c Case) (res core.Result) {
	defer func() {
		if r := recover(); r != nil {
			core.HarnessPanic(r)
			res = core.Result{Viol: core.Violate("C10/panic", "file plugin panicked: %v", r)}
		}
	}()
	switch c.Sub {
	case "refresh":
		return execRefresh(c)
	case "dual":
		return execDual(c)
	}
	text := Render(c.Lines, c.NoNL)
	model, merr := ParseModel(text, c.V6)
	path := newFile(text)
	defer os.Remove(path)
	fam := "v4"
	if c.V6 {
		fam = "v6"
	}
	var (
		h4  handler.Handler4
		h6  handler.Handler6
		err error
	)
	if c.V6 {
		h6, err = file.Plugin.Setup6(path)
	} else {
		h4, err = file.Plugin.Setup4(path)
	}
	bad := ""
	for _, l := range c.Lines {
		if l.Kind != "entry" && l.Kind != "comment" && l.Kind != "empty" {
			bad = l.Kind
		}
	}
	res.Classes = []string{fam}
	for _, l := range c.Lines {
		if l.Pad >= 65490 {
			res.Classes = append(res.Classes, "line-longer-than-64k")
			break
		}
	}
	if merr != nil {
		res.Classes = append(res.Classes, "malformed:"+bad)
		if err == nil {
			res.Viol = core.Violate("C10/"+fam+"/malformed-file-accepted/"+bad, "file with a malformed line (%v) was accepted:\n%s", merr, clip(text))
			return
		}
		res.NonTrivial = len(c.Lines) >= 3
		return
	}
	if err != nil {
		res.Viol = core.Violate("C10/"+fam+"/well-formed-file-rejected", "well-formed file rejected (%v):\n%s", err, clip(text))
		return
	}
	var v *core.Violation
	if c.V6 {
		v = checkMapping6(h6, model, "")
	} else {
		v = checkMapping4(h4, model, "")
	}
	if v != nil {
		v.Message += "\nfile:\n" + clip(text)
		res.Viol = v
		return
	}
	if !c.V6 && len(c.Hist) > 0 {
		cap4 := server.NewCapture4([]handler.Handler4{h4}, nil)
		for i, hx := range c.Hist {
			b, _ := hex.DecodeString(hx)
			returned, pan := core.Call(20*time.Second, func() {
				cap4.Feed(b, &ipv4.ControlMessage{IfIndex: 1}, &net.UDPAddr{IP: net.IPv4(10, 9, 8, 7), Port: 68})
			})
			if pan != nil || !returned {
				// crashes and wedges are C01's business
				res.Classes = append(res.Classes, "abandoned:C01")
				return
			}
			_ = i
		}
		if v := checkMapping4(h4, model, ""); v != nil {
			v.Signature = "C10/v4/mapping-changed-by-requests"
			v.Message = fmt.Sprintf("after %d datagrams went through the server with the file plugin as its chain: %s\nfile:\n%s", len(c.Hist), v.Message, clip(text))
			res.Viol = v
			return
		}
		res.Classes = append(res.Classes, "probed-again-after-requests")
	}
	entries, dup, noncanon := 0, false, false
	seen := map[string]bool{}
	for _, l := range c.Lines {
		if l.Kind == "entry" {
			entries++
			if seen[l.MAC] {
				dup = true
			}
			seen[l.MAC] = true
			if l.Style != 0 || l.Sep != "" && l.Sep != " " || l.Trail != "" {
				noncanon = true
			}
		}
	}
	res.NonTrivial = entries >= 2 && (dup || noncanon)
	if dup {
		res.Classes = append(res.Classes, "duplicate-mac")
	}
	if noncanon {
		res.Classes = append(res.Classes, "non-canonical-spelling")
	}
	return
}

// ---- autorefresh --------------------------------------------------------------

const padTo = 8192

// refreshDeadline is how long "eventually" may take (measured latency of a
// reload on this machine: a few milliseconds)
const refreshDeadline = 15 * time.Second

// padded renders content to exactly padTo bytes with a trailing comment line,
// so that a rewrite in place is one pwrite and never shrinks the file
func padded(text string) []byte {
	if text != "" && !strings.HasSuffix(text, "\n") {
		text += "\n"
	}
	n := padTo - len(text)
	if n < 2 {
		return []byte(text)
	}
	return []byte(text + "#" + strings.Repeat("p", n-2) + "\n")
}

type refreshInst struct {
	v6   bool
	h4   handler.Handler4
	h6   handler.Handler6
	path string
}

func (ri *refreshInst) snapshotOne(k string) (net.IP, *core.Violation) {
	hw, _ := hex.DecodeString(k)
	if ri.v6 {
		return lookup6(ri.h6, hw, "duid", true, gen.M6Solicit)
	}
	return lookup4(ri.h4, hw)
}

func sameIP(a, b net.IP) bool {
	if a == nil || b == nil {
		return a == nil && b == nil
	}
	return a.Equal(b)
}

// awaitSwitch polls until every key serves its value in next; every lookup must
// serve either the old or the new value, and once any lookup served a
// new-only value no later lookup may serve an old-only value (one switch point)
func (ri *refreshInst) awaitSwitch(prev, next map[string]net.IP, deadline time.Duration) (bool, *core.Violation) {
	return ri.awaitStages([]map[string]net.IP{prev, next}, deadline)
}

// awaitStages generalises awaitSwitch to a sequence of file contents written one after the
// other (old, intermediate..., last): every lookup must serve the value of one of them, the
// stages observed never go backwards (each switch is all-or-nothing), and the last one is
// reached before the deadline
func (ri *refreshInst) awaitStages(stages []map[string]net.IP, deadline time.Duration) (bool, *core.Violation) {
	keys := map[string]bool{}
	for _, m := range stages {
		for k := range m {
			if len(k) <= 32 || ri.v6 {
				keys[k] = true
			}
		}
	}
	var ks []string
	for k := range keys {
		ks = append(ks, k)
	}
	sort.Strings(ks)
	last := len(stages) - 1
	lo := 0 // the mapping in force is known to be at least this stage
	end := time.Now().Add(deadline)
	for {
		allNew := true
		for _, k := range ks {
			got, v := ri.snapshotOne(k)
			if v != nil {
				return false, v
			}
			first, any, reach := -1, false, false
			for j, m := range stages {
				if sameIP(got, m[k]) {
					any = true
					if j >= lo && first < 0 {
						first = j
					}
					if j >= lo {
						reach = true
					}
				}
			}
			if !any {
				var vals []string
				for _, m := range stages {
					vals = append(vals, fmt.Sprint(m[k]))
				}
				return false, core.Violate("C10/refresh/neither-old-nor-new", "during refresh %s is served %v; the contents written say, in order, %v", k, got, vals)
			}
			if !reach {
				return false, core.Violate("C10/refresh/mixed-mapping", "after the mapping of content #%d had been observed, %s is served %v, its value in an earlier content (content #%d says %v): the update is not all-or-nothing, or an older content came back", lo, k, got, lo, stages[lo][k])
			}
			if first > lo {
				lo = first
			}
			if !sameIP(got, stages[last][k]) {
				allNew = false
			}
		}
		if allNew {
			return true, nil
		}
		if time.Now().After(end) {
			return false, nil
		}
		time.Sleep(200 * time.Microsecond)
	}
}

// holdSteady polls for d and reports any deviation from the mapping in force
func (ri *refreshInst) holdSteady(cur map[string]net.IP, probe map[string]net.IP, d time.Duration) *core.Violation {
	keys := map[string]bool{}
	for k := range cur {
		keys[k] = true
	}
	for k := range probe {
		keys[k] = true
	}
	var ks []string
	for k := range keys {
		if len(k) <= 32 || ri.v6 {
			ks = append(ks, k)
		}
	}
	sort.Strings(ks)
	end := time.Now().Add(d)
	for {
		for _, k := range ks {
			got, v := ri.snapshotOne(k)
			if v != nil {
				return v
			}
			if !sameIP(got, cur[k]) {
				return core.Violate("C10/refresh/malformed-update-changes-mapping", "after a malformed update %s is served %v, the mapping in force says %v", k, got, cur[k])
			}
		}
		if time.Now().After(end) {
			return nil
		}
		time.Sleep(time.Millisecond)
	}
}

func writeInPlace(path string, data []byte) error {
	f, err := os.OpenFile(path, os.O_WRONLY, 0)
	if err != nil {
		return err
	}
	defer f.Close()
	_, err = f.WriteAt(data, 0)
	return err
}

func execRefresh(c Case) (res core.Result) {
	fam := "v4"
	if c.V6 {
		fam = "v6"
	}
	res.Classes = []string{"refresh/" + fam}
	if watchers.Load() >= int64(core.EnvInt("VERIF_MAX_WATCHERS", 40)) {
		res.Skipped = "inotify-budget"
		return
	}
	text := Render(c.Lines, false)
	cur, merr := ParseModel(text, c.V6)
	if merr != nil {
		res.Skipped = "bad-case"
		return
	}
	path := newFile(string(padded(text)))
	ri := &refreshInst{v6: c.V6, path: path}
	var err error
	watchers.Add(1)
	if c.V6 {
		ri.h6, err = file.Plugin.Setup6(spelled(path, c.Spell), "autorefresh")
	} else {
		ri.h4, err = file.Plugin.Setup4(spelled(path, c.Spell), "autorefresh")
	}
	if err != nil {
		if inotifyExhausted(err) || strings.Contains(err.Error(), "watcher") {
			res.Skipped = "inotify-limit"
			return
		}
		res.Viol = core.Violate("C10/"+fam+"/well-formed-file-rejected", "autorefresh setup rejected a well-formed file: %v", err)
		return
	}
	if v := ri.holdSteady(cur, nil, 0); v != nil {
		v.Signature = "C10/refresh/initial-mapping-wrong"
		res.Viol = v
		return
	}
	sawBadAfterGood, lastGood := false, false
	fileLen := len(padded(text))
	lastWrite := time.Now()
	sawBurst := false
	for i, rw := range c.Rewrites {
		var ntext string
		var bigModel map[string]net.IP
		if rw.Pause > 0 {
			time.Sleep(time.Duration(rw.Pause) * time.Millisecond)
		}
		sinceLast := time.Since(lastWrite)
		lastWrite = time.Now()
		if rw.Append {
			add := Render(rw.Lines, false)
			f, err := os.OpenFile(path, os.O_WRONLY|os.O_APPEND, 0)
			if err != nil {
				res.Skipped = "io"
				return
			}
			f.Write([]byte(add))
			f.Close()
			b, _ := os.ReadFile(path)
			ntext = string(b)
			fileLen = len(b)
		} else {
			ntext = Render(rw.Lines, false)
			var bigProbe map[string]net.IP
			_, finalErr := ParseModel(ntext, c.V6)
			if rw.Filler > 0 && finalErr == nil {
				// only the first few generated entries are probed
				if m, err := ParseModel(Render(rw.BigLines, false)+fillerText(3, c.V6), c.V6); err == nil {
					bigProbe = m
					// the last content lists one client no other content of this case lists, so that
					// "the last content is in force" can be told from an earlier content that
					// happens to say the same about every other client
					if c.V6 {
						ntext = fmt.Sprintf("02:fe:fe:fe:00:%02x 2001:db8:fe::%x\n", byte(i), i+1) + ntext
					} else {
						ntext = fmt.Sprintf("02:fe:fe:fe:00:%02x 10.254.%d.1\n", byte(i), byte(i)) + ntext
					}
				}
			}
			data := padded(ntext)
			if bigProbe != nil {
				bigText := Render(rw.BigLines, false) + fillerText(rw.Filler, c.V6)
				{
					m := bigProbe
					big := []byte(bigText)
					if gap := fileLen - len(big); gap == 1 {
						big = append(big, '\n')
					} else if gap >= 2 {
						big = append(big, []byte("#"+strings.Repeat("b", gap-2)+"\n")...)
					}
					fileLen = len(big)
					if err := writeInPlace(path, big); err != nil {
						res.Skipped = "io"
						return
					}
					bigModel = m
				}
			}
			if gap := fileLen - len(data); gap == 1 {
				data = append(data, '\n') // an empty line
			} else if gap >= 2 {
				// keep the file length: never shrink (an earlier append made it longer)
				data = append(data, []byte("#"+strings.Repeat("q", gap-2)+"\n")...)
			}
			if len(data) != fileLen {
				res.Skipped = "bad-case"
				return
			}
			if err := writeInPlace(path, data); err != nil {
				res.Skipped = "io"
				return
			}
			ntext = string(data)
		}
		next, nerr := ParseModel(ntext, c.V6)
		if nerr != nil {
			if lastGood {
				sawBadAfterGood = true
			}
			lastGood = false
			// candidate values of the rejected file are probed too: none of them may show up
			probe := map[string]net.IP{}
			for _, l := range rw.Lines {
				if l.Kind == "entry" {
					probe[l.MAC] = nil
				}
			}
			if v := ri.holdSteady(cur, probe, 100*time.Millisecond); v != nil {
				v.Message = fmt.Sprintf("rewrite %d: %s", i, v.Message)
				res.Viol = v
				return
			}
			continue
		}
		// no further file event is generated while waiting: an implementation that
		// drops the event of this update (throttling, coalescing without a trailing
		// reload) would otherwise be rescued by the harness
		stages := []map[string]net.IP{cur, next}
		if bigModel != nil {
			stages = []map[string]net.IP{cur, bigModel, next}
		}
		ok, v := ri.awaitStages(stages, refreshDeadline)
		if v == nil && ok && bigModel != nil {
			// the reload of the large content may still be running: it must not be published
			// over the newer one
			sawBurst = true
			if hv := ri.holdSteady(next, bigModel, 150*time.Millisecond); hv != nil {
				hv.Signature = "C10/refresh/older-content-comes-back"
				hv.Message = "two rewrites in a row (a large file, then this one); after this one's mapping was in force: " + strings.Replace(hv.Message, "after a malformed update ", "", 1)
				v = hv
			}
		}
		if v != nil {
			v.Message = fmt.Sprintf("rewrite %d: %s", i, v.Message)
			res.Viol = v
			return
		}
		if !ok {
			res.Viol = core.Violate("C10/refresh/well-formed-update-never-applied", "rewrite %d: %v after a well-formed update (written %d ms after the previous rewrite) the old mapping is still served", i, refreshDeadline, sinceLast.Milliseconds())
			return
		}
		cur = next
		lastGood = true
	}
	res.NonTrivial = sawBadAfterGood || sawBurst
	if sawBadAfterGood {
		res.Classes = append(res.Classes, "bad-rewrite-after-good")
	}
	if sawBurst {
		res.Classes = append(res.Classes, "rewrite-burst")
	}
	return
}

// ---- dual stack ----------------------------------------------------------------

func execDual(c Case) (res core.Result) {
	res.Classes = []string{"dual"}
	t4, t6 := Render(c.Lines, false), Render(c.Lines6, false)
	m4, e4 := ParseModel(t4, false)
	m6, e6 := ParseModel(t6, true)
	if e4 != nil || e6 != nil {
		res.Skipped = "bad-case"
		return
	}
	need := int64(0)
	if c.Refresh4 {
		need++
	}
	if c.Refresh6 {
		need++
	}
	if need > 0 && watchers.Load()+need > int64(core.EnvInt("VERIF_MAX_WATCHERS", 40)) {
		c.Refresh4, c.Refresh6 = false, false
	}
	if len(padded(t4)) != padTo || len(padded(t6)) != padTo {
		// not rewritable in place at a fixed length (a replayed case with a very long line)
		c.Rewrites = nil
	}
	p4, p6 := newFile(string(padded(t4))), newFile(string(padded(t6)))
	args4, args6 := []string{spelled(p4, c.Spell)}, []string{spelled(p6, c.Spell)}
	if c.Refresh4 {
		args4 = append(args4, "autorefresh")
		watchers.Add(1)
	}
	if c.Refresh6 {
		args6 = append(args6, "autorefresh")
		watchers.Add(1)
	}
	var (
		h4       handler.Handler4
		h6       handler.Handler6
		er4, er6 error
	)
	// LoadPlugins sets DHCPv6 plugins up first; the other order is what a future refactoring might do
	if c.V6First {
		h6, er6 = file.Plugin.Setup6(args6...)
		h4, er4 = file.Plugin.Setup4(args4...)
	} else {
		h4, er4 = file.Plugin.Setup4(args4...)
		h6, er6 = file.Plugin.Setup6(args6...)
	}
	if er4 != nil || er6 != nil {
		if inotifyExhausted(er4) || inotifyExhausted(er6) {
			res.Skipped = "inotify-limit"
			return
		}
		res.Viol = core.Violate("C10/dualstack/well-formed-file-rejected", "setup failed: %v / %v", er4, er6)
		return
	}
	res.NonTrivial = len(m4) > 0 && len(m6) > 0
	if v := checkMapping4(h4, m4, ""); v != nil {
		v.Signature = "C10/dualstack/served-from-other-protocol-table"
		v.Message = fmt.Sprintf("dual-stack (v6 set up first: %v): DHCPv4 handler does not serve its own file: %s", c.V6First, v.Message)
		res.Viol = v
		return
	}
	if v := checkMapping6(h6, m6, ""); v != nil {
		v.Signature = "C10/dualstack/served-from-other-protocol-table"
		v.Message = fmt.Sprintf("dual-stack (v6 set up first: %v): DHCPv6 handler does not serve its own file: %s", c.V6First, v.Message)
		res.Viol = v
		return
	}
	// rewrites of either file while both instances are up: each instance reloads its own file
	// with its own rules, and the other one is not affected
	ri4 := &refreshInst{v6: false, h4: h4, path: p4}
	ri6 := &refreshInst{v6: true, h6: h6, path: p6}
	cur4, cur6 := m4, m6
	for i, rw := range c.Rewrites {
		ri, cur, other, otherCur, on := ri4, cur4, ri6, cur6, c.Refresh4
		if rw.Target6 {
			ri, cur, other, otherCur, on = ri6, cur6, ri4, cur4, c.Refresh6
		}
		if !on {
			continue
		}
		ntext := Render(rw.Lines, false)
		data := padded(ntext)
		if len(data) != padTo {
			continue
		}
		if err := writeInPlace(ri.path, data); err != nil {
			res.Skipped = "io"
			return
		}
		next, nerr := ParseModel(string(data), rw.Target6)
		if nerr != nil {
			if v := ri.holdSteady(cur, nil, 100*time.Millisecond); v != nil {
				v.Signature = "C10/dualstack/malformed-update-changes-mapping"
				v.Message = fmt.Sprintf("dual-stack, rewrite %d of the DHCPv%s file (%v): %s", i, map[bool]string{false: "4", true: "6"}[rw.Target6], nerr, v.Message)
				res.Viol = v
				return
			}
			continue
		}
		ok, v := ri.awaitSwitch(cur, next, refreshDeadline)
		if v == nil && !ok {
			v = core.Violate("C10/dualstack/well-formed-update-never-applied", "%v after a well-formed update the old mapping is still served", refreshDeadline)
		}
		if v == nil {
			v = other.holdSteady(otherCur, nil, 10*time.Millisecond)
			if v != nil {
				v.Signature = "C10/dualstack/update-changes-other-instance"
			}
		}
		if v != nil {
			v.Message = fmt.Sprintf("dual-stack (v6 set up first: %v), rewrite %d of the DHCPv%s file: %s", c.V6First, i, map[bool]string{false: "4", true: "6"}[rw.Target6], v.Message)
			if !strings.HasPrefix(v.Signature, "C10/dualstack/") {
				v.Signature = "C10/dualstack/" + strings.TrimPrefix(v.Signature, "C10/")
			}
			res.Viol = v
			return
		}
		if rw.Target6 {
			cur6 = next
		} else {
			cur4 = next
		}
		res.Classes = append(res.Classes, "dual-refresh")
	}
	return
}
