//go:build verif

package static

import (
	"os"
	"testing"

	"verif/harness/core"
)

func TestMain(m *testing.M) {
	rc := m.Run()
	Cleanup()
	os.Exit(rc)
}

func TestC10Static(t *testing.T)  { core.Run(t, "C10", GenStatic, Exec) }
func TestC10Refresh(t *testing.T) { core.Run(t, "C10", GenRefresh, Exec) }
func TestC10Dual(t *testing.T)    { core.Run(t, "C10", GenDual, Exec) }
