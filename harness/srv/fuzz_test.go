//go:build verif

package srv

import (
	"encoding/hex"
	"testing"

	"verif/harness/core"
	"verif/harness/gen"
)

// preset chains for the history fuzzers (first input byte selects one)
var presets4 = [][]string{
	{},
	{"server_id", "range", "dns", "router", "netmask", "lease_time"},
	{"server_id", "ipv6only", "file", "range", "dns", "router", "netmask", "lease_time", "mtu", "staticroute", "searchdomains", "autoconfigure"},
	{"file", "range", "nbp"},
	{"range", "server_id", "autoconfigure"},
	{"autoconfigure", "ipv6only", "searchdomains", "staticroute", "mtu"},
}
var presets6 = [][]string{
	{},
	{"server_id", "file", "prefix", "dns"},
	{"prefix"},
	{"server_id", "prefix", "searchdomains", "nbp"},
	{"file", "dns", "searchdomains", "sleep", "prefix"},
}

func presetChain(v6 bool, sel byte) []PluginSpec {
	ps, args := presets4, chainArgs4
	if v6 {
		ps, args = presets6, chainArgs6
	}
	names := ps[int(sel)%len(ps)]
	var out []PluginSpec
	for _, n := range names {
		out = append(out, PluginSpec{Name: n, Args: args[n][int(sel/16)%len(args[n])]})
	}
	return out
}

// splitDatagrams: 2-byte big-endian length prefix per datagram
func splitDatagrams(b []byte) [][]byte {
	var out [][]byte
	for len(b) >= 2 && len(out) < 16 {
		n := int(b[0])<<8 | int(b[1])
		b = b[2:]
		if n > len(b) {
			n = len(b)
		}
		out = append(out, b[:n])
		b = b[n:]
	}
	return out
}

func joinDatagrams(sel byte, ds ...[]byte) []byte {
	out := []byte{sel}
	for _, d := range ds {
		out = append(out, byte(len(d)>>8), byte(len(d)))
		out = append(out, d...)
	}
	return out
}

func fuzzHistory(f *testing.F, v6 bool) {
	core.Quiet()
	f.Fuzz(func(t *testing.T, data []byte) {
		if len(data) < 3 || !fdBudgetLeft() {
			return
		}
		c := HCase{V6: v6, Plugins: presetChain(v6, data[0]), Bound: data[0]&0x80 != 0}
		for _, d := range splitDatagrams(data[1:]) {
			c.History = append(c.History, Dgram{Hex: hex.EncodeToString(d), Src: "fe80::1"})
		}
		if len(c.History) == 0 {
			return
		}
		if r := ExecH(c); r.Viol != nil {
			t.Fatalf("VIOLATION-DETAIL property=C01 signature=%s: %s", r.Viol.Signature, r.Viol.Message)
		}
	})
}

func FuzzHandle4(f *testing.F) {
	for _, hw := range gen.Clients4 {
		d := gen.Pkt4{Op: 1, HType: 1, HLen: uint8(len(hw) / 2), Xid: 7, CHAddr: hw, Opts: []gen.Opt4{{Code: 53, Hex: "01"}, {Code: 55, Hex: "0103066c74"}}}
		r := gen.Pkt4{Op: 1, HType: 1, HLen: uint8(len(hw) / 2), Xid: 8, CHAddr: hw, Opts: []gen.Opt4{{Code: 53, Hex: "03"}, {Code: 50, Hex: "0a0a0a64"}, {Code: 54, Hex: "0a0a0a01"}}}
		f.Add(joinDatagrams(1, d.Bytes(), r.Bytes()))
		f.Add(joinDatagrams(2, d.Bytes(), d.Bytes(), r.Bytes()))
	}
	rel := gen.Pkt4{Op: 1, HType: 1, HLen: 6, Xid: 9, CHAddr: "001122334455", GIAddr: "10.9.9.1", Flags: 0x8000, Opts: []gen.Opt4{{Code: 53, Hex: "01"}, {Code: 82, Hex: "01046369726332"}, {Code: 61, Hex: "01001122334455"}, {Code: 116, Hex: "01"}}}
	f.Add(joinDatagrams(0x82, rel.Bytes()))
	f.Add(joinDatagrams(3, rel.Bytes(), rel.Bytes()))
	fuzzHistory(f, false)
}

func FuzzHandle6(f *testing.F) {
	sol := gen.Msg6Spec{Type: gen.M6Solicit, Xid: 1, Client: 0, IANA: 1, IAPD: [][]gen.PD6Hint{{}}}
	len0 := gen.Msg6Spec{Type: gen.M6Request, Xid: 2, Client: 0, Server: "own", IAPD: [][]gen.PD6Hint{{{Len: 0, IP: "::"}}}}
	ren := gen.Msg6Spec{Type: gen.M6Renew, Xid: 3, Client: 0, Server: "own", IAPD: [][]gen.PD6Hint{{{Len: 64, IP: gen.PoolBlock6(0)}, {Len: 64, IP: gen.PoolBlock6(1)}}}}
	relayed := sol
	relayed.Relays = []gen.Relay6Spec{{Type: gen.M6RelayForw, Hop: 1, Link: "2001:db8::1", Peer: "fe80::1", IfaceID: "6574"}, {Type: gen.M6RelayForw, Link: "2001:db8::2", Peer: "fe80::211:22ff:fe33:4455", IfaceID: "-", LLAddr: "0001001122334455"}}
	for _, sel := range []byte{1, 2, 3, 4, 0x81} {
		f.Add(joinDatagrams(sel, sol.Bytes(), len0.Bytes()))
		f.Add(joinDatagrams(sel, sol.Bytes(), sol.Bytes(), ren.Bytes(), len0.Bytes()))
		f.Add(joinDatagrams(sel, relayed.Bytes(), ren.Bytes()))
	}
	fuzzHistory(f, true)
}

func FuzzReply4(f *testing.F) {
	core.Quiet()
	d := gen.Pkt4{Op: 1, HType: 1, HLen: 6, Xid: 7, CHAddr: "020000000001", GIAddr: "10.9.9.1", Opts: []gen.Opt4{{Code: 53, Hex: "01"}, {Code: 82, Hex: "01046369726332"}, {Code: 61, Hex: "01020000000001"}}}
	r := gen.Pkt4{Op: 1, HType: 1, HLen: 6, Xid: 8, CHAddr: "020000000001", CIAddr: "10.10.10.9", Opts: []gen.Opt4{{Code: 53, Hex: "03"}}}
	b := gen.Pkt4{Op: 1, HType: 1, HLen: 6, Xid: 9, CHAddr: "020000000001", Flags: 0x8000, Opts: []gen.Opt4{{Code: 53, Hex: "01"}}}
	for i, p := range []gen.Pkt4{d, r, b} {
		f.Add(byte(i), p.Bytes())
	}
	f.Fuzz(func(t *testing.T, sel byte, data []byte) {
		c := R4Case{Hex: hex.EncodeToString(data), Chain: []string{"empty", "pass", "nak", "drop"}[int(sel)%4], Bound: sel&0x80 != 0}
		if r := ExecR4(c); r.Viol != nil {
			t.Fatalf("VIOLATION-DETAIL property=C11 signature=%s: %s", r.Viol.Signature, r.Viol.Message)
		}
	})
}

func FuzzReply6(f *testing.F) {
	core.Quiet()
	sol := gen.Msg6Spec{Type: gen.M6Solicit, Xid: 1, Client: 0, IANA: 1}
	rc := gen.Msg6Spec{Type: gen.M6Solicit, Xid: 2, Client: 1, Rapid: true}
	relayed := gen.Msg6Spec{Type: gen.M6Request, Xid: 3, Client: 2, Server: "own", Relays: []gen.Relay6Spec{{Type: gen.M6RelayForw, Hop: 1, Link: "2001:db8::1", Peer: "fe80::1", IfaceID: "6574"}, {Type: gen.M6RelayForw, Link: "2001:db8::2", Peer: "fe80::2", IfaceID: "-"}}}
	for i, m := range []gen.Msg6Spec{sol, rc, relayed} {
		f.Add(byte(i), m.Bytes())
	}
	f.Fuzz(func(t *testing.T, sel byte, data []byte) {
		c := R6Case{Hex: hex.EncodeToString(data), Src: []string{"fe80::1", "2001:db8::99"}[int(sel)%2], Port: 546, Bound: sel&0x80 != 0, RecvIf: 2}
		if r := ExecR6(c); r.Viol != nil {
			t.Fatalf("VIOLATION-DETAIL property=C12 signature=%s: %s", r.Viol.Signature, r.Viol.Message)
		}
	})
}
