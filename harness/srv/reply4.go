//go:build verif

package srv

import (
	"bytes"
	"encoding/binary"
	"encoding/hex"
	"fmt"
	"net"

	"github.com/coredhcp/coredhcp/handler"
	"github.com/coredhcp/coredhcp/server"
	"github.com/insomniacslk/dhcp/dhcpv4"
	"golang.org/x/net/ipv4"
	"pgregory.net/rapid"
	"verif/harness/core"
	"verif/harness/gen"
)

// frame is a decoded layer-2 unicast
type frame struct {
	dstMAC, srcMAC net.HardwareAddr
	srcIP, dstIP   net.IP
	sport, dport   uint16
	payload        []byte
}

func decodeFrame(b []byte) (f frame, ok bool) {
	if len(b) < 14+20+8 || binary.BigEndian.Uint16(b[12:14]) != 0x0800 {
		return f, false
	}
	f.dstMAC, f.srcMAC = net.HardwareAddr(b[0:6]), net.HardwareAddr(b[6:12])
	ip := b[14:]
	ihl := int(ip[0]&0x0f) * 4
	if ip[0]>>4 != 4 || ihl < 20 || len(ip) < ihl+8 || ip[9] != 17 {
		return f, false
	}
	f.srcIP, f.dstIP = net.IP(ip[12:16]), net.IP(ip[16:20])
	udp := ip[ihl:]
	f.sport, f.dport = binary.BigEndian.Uint16(udp[0:2]), binary.BigEndian.Uint16(udp[2:4])
	ulen := int(binary.BigEndian.Uint16(udp[4:6]))
	if ulen < 8 || ulen > len(udp) {
		return f, false
	}
	f.payload = udp[8:ulen]
	return f, true
}

// R4Case is one datagram fed to HandleMsg4 under a chain
type R4Case struct {
	Hex string `json:"hex"` // the datagram
	// Chain: empty | pass | nak | drop | builtin
	Chain   string       `json:"chain"`
	Plugins []PluginSpec `json:"plugins,omitempty"`
	Bound   bool         `json:"bound,omitempty"`
	Mutated bool         `json:"mutated,omitempty"`
}

func synPass4(req, resp *dhcpv4.DHCPv4) (*dhcpv4.DHCPv4, bool) { return resp, false }
func synNak4(req, resp *dhcpv4.DHCPv4) (*dhcpv4.DHCPv4, bool) {
	if req.MessageType() == dhcpv4.MessageTypeRequest {
		resp.UpdateOption(dhcpv4.OptMessageType(dhcpv4.MessageTypeNak))
	}
	return resp, false
}
func synDrop4(req, resp *dhcpv4.DHCPv4) (*dhcpv4.DHCPv4, bool) { return nil, true }
func synAddr4(req, resp *dhcpv4.DHCPv4) (*dhcpv4.DHCPv4, bool) {
	resp.YourIPAddr = net.IPv4(10, 10, 10, 77)
	return resp, false
}

// statelessChain4 draws a chain of built-in plugins that keep no state between datagrams
func statelessChain4(t *rapid.T) []PluginSpec {
	var out []PluginSpec
	names := []string{"server_id", "dns", "router", "netmask", "lease_time", "mtu", "staticroute", "searchdomains", "ipv6only", "autoconfigure", "nbp"}
	perm := rapid.Permutation(names).Draw(t, "chain-order")
	n := rapid.IntRange(0, 5).Draw(t, "chain-len")
	for _, name := range perm[:n] {
		variants := chainArgs4[name]
		out = append(out, PluginSpec{Name: name, Args: variants[rapid.IntRange(0, len(variants)-1).Draw(t, "chain-args")]})
	}
	return out
}

// GenR4 draws one case
func GenR4(t *rapid.T) R4Case {
	var c R4Case
	p := gen.GenPkt4(t)
	b := p.Bytes()
	if gen.Chance(t, "mutate", 1, 5) {
		b = gen.MutateBytes(t, b, gen.GenPkt4(t).Bytes())
		c.Mutated = true
	}
	c.Hex = hex.EncodeToString(b)
	c.Chain = rapid.SampledFrom([]string{"empty", "empty", "pass", "nak", "drop", "builtin", "builtin"}).Draw(t, "chain")
	if c.Chain == "builtin" {
		c.Plugins = statelessChain4(t)
	}
	c.Bound = rapid.Bool().Draw(t, "bound")
	return c
}

func chainFor4(c *R4Case) ([]handler.Handler4, *chainInst, error) {
	switch c.Chain {
	case "empty":
		return nil, nil, nil
	case "pass":
		return []handler.Handler4{synAddr4, synPass4}, nil, nil
	case "nak":
		return []handler.Handler4{synAddr4, synNak4}, nil, nil
	case "drop":
		return []handler.Handler4{synPass4, synDrop4, synPass4}, nil, nil
	}
	ci, err := buildChain(false, c.Plugins)
	if err != nil {
		return nil, nil, err
	}
	return ci.h4, ci, nil
}

// feed4 runs one datagram through a capture listener, recovering panics
func feed4(cap4 *server.Capture4, dgram []byte, oob *ipv4.ControlMessage, peer *net.UDPAddr) (sent []server.Sent, panicked interface{}) {
	defer func() {
		if r := recover(); r != nil {
			core.HarnessPanic(r)
			panicked = r
		}
	}()
	return cap4.Feed(dgram, oob, peer), nil
}

// ExecR4 checks C11 on one datagram
func ExecR4(c R4Case) (res core.Result) {
	dgram, _ := hex.DecodeString(c.Hex)
	hs, ci, err := chainFor4(&c)
	if err != nil {
		res.Viol = core.Violate("C11/harness-chain-setup", "chain %v rejected: %v", c.Plugins, err)
		return
	}
	if ci != nil {
		defer ci.cleanup()
	}
	l2, _ := ifaces()
	var cap4 *server.Capture4
	oob := &ipv4.ControlMessage{IfIndex: 1}
	if l2 != nil {
		oob.IfIndex = l2.Index
	}
	if c.Bound && l2 != nil {
		cap4 = server.NewCapture4(hs, l2)
	} else {
		cap4 = server.NewCapture4(hs, nil)
	}
	sent, pan := feed4(cap4, dgram, oob, &net.UDPAddr{IP: net.IPv4(10, 10, 10, 200), Port: 68})
	if pan != nil {
		// C01's business; here the case ends
		res.Classes = []string{"abandoned:panic"}
		return
	}
	return verifyReply4(dgram, sent, c.Chain)
}

// verifyReply4 is the C11 oracle for one datagram and what the server sent for it.
// cannotDrop: the chain cannot drop a request; nakChain: the chain turns REQUESTs into NAKs
func verifyReply4(dgram []byte, sent []server.Sent, chain string) (res core.Result) {
	c := R4Case{Chain: chain}
	// reference classification (library parse = definition of "unparseable")
	req, perr := dhcpv4.FromBytes(dgram)
	class := ""
	switch {
	case perr != nil:
		class = "unparseable"
	case req.OpCode != dhcpv4.OpcodeBootRequest:
		class = "not-a-bootrequest"
	case req.MessageType() != dhcpv4.MessageTypeDiscover && req.MessageType() != dhcpv4.MessageTypeRequest:
		class = "type-not-discover-or-request"
	default:
		class = "answerable"
	}
	res.Classes = []string{class, "chain:" + c.Chain}
	res.NonTrivial = perr == nil
	if len(sent) > 1 {
		res.Viol = core.Violate("C11/more-than-one-reply", "%d datagrams sent for one request", len(sent))
		return
	}
	if class != "answerable" {
		if len(sent) != 0 {
			res.Viol = core.Violate("C11/answered-non-request/"+class, "datagram classified %q was answered (opcode %v, type %v)", class, opcodeOf(dgram), typeOf(req))
		}
		return
	}
	if len(sent) == 0 {
		// legal when a plugin dropped it, or on the layer-2 path when the frame cannot be built
		l2path := req.GatewayIPAddr.IsUnspecified() && req.ClientIPAddr.IsUnspecified() && !req.IsBroadcast()
		if (c.Chain == "empty" || c.Chain == "pass" || c.Chain == "nak") && !(l2path && !(c.Chain == "nak" && req.MessageType() == dhcpv4.MessageTypeRequest)) {
			res.Viol = core.Violate("C11/request-not-answered", "a %v with a chain that cannot drop got no reply (giaddr %v ciaddr %v flags %#x)", req.MessageType(), req.GatewayIPAddr, req.ClientIPAddr, req.Flags)
		}
		res.Classes = append(res.Classes, "no-reply")
		return
	}
	if c.Chain == "drop" {
		res.Viol = core.Violate("C11/nil-response-sent", "a chain that returns a nil response sent a reply")
		return
	}
	s := sent[0]
	payload := s.Payload
	if s.L2 {
		f, ok := decodeFrame(s.Frame)
		if !ok {
			res.Viol = core.Violate("C11/l2-frame-malformed", "layer-2 frame does not decode")
			return
		}
		payload = f.payload
		res.Classes = append(res.Classes, "l2")
	}
	rep, err := dhcpv4.FromBytes(payload)
	if err != nil {
		res.Viol = core.Violate("C11/reply-does-not-parse", "reply does not parse: %v", err)
		return
	}
	if payload[0] != 2 {
		res.Viol = core.Violate("C11/reply-not-bootreply", "reply has opcode %d", payload[0])
		return
	}
	if rep.TransactionID != req.TransactionID {
		res.Viol = core.Violate("C11/xid-differs", "reply xid %v, request %v", rep.TransactionID, req.TransactionID)
		return
	}
	if rep.HWType != req.HWType {
		res.Viol = core.Violate("C11/htype-differs", "reply htype %v, request %v", rep.HWType, req.HWType)
		return
	}
	if !bytes.Equal(rep.ClientHWAddr, req.ClientHWAddr) {
		res.Viol = core.Violate("C11/chaddr-differs", "reply chaddr %v, request %v", rep.ClientHWAddr, req.ClientHWAddr)
		return
	}
	if rep.Flags != req.Flags {
		res.Viol = core.Violate("C11/flags-differ", "reply flags %#x, request %#x", rep.Flags, req.Flags)
		return
	}
	if !rep.GatewayIPAddr.Equal(req.GatewayIPAddr) {
		res.Viol = core.Violate("C11/giaddr-differs", "reply giaddr %v, request %v", rep.GatewayIPAddr, req.GatewayIPAddr)
		return
	}
	for _, code := range []dhcpv4.OptionCode{dhcpv4.OptionRelayAgentInformation, dhcpv4.OptionClientIdentifier} {
		if v := req.Options.Get(code); v != nil {
			if g := rep.Options.Get(code); !bytes.Equal(g, v) {
				res.Viol = core.Violate("C11/option-not-echoed", "option %v of the request (%x) is %x in the reply", code, v, g)
				return
			}
		}
	}
	mt := rep.MessageType()
	switch req.MessageType() {
	case dhcpv4.MessageTypeDiscover:
		if mt != dhcpv4.MessageTypeOffer {
			res.Viol = core.Violate("C11/wrong-reply-type", "DISCOVER answered with %v", mt)
			return
		}
	case dhcpv4.MessageTypeRequest:
		if mt != dhcpv4.MessageTypeAck && mt != dhcpv4.MessageTypeNak {
			res.Viol = core.Violate("C11/wrong-reply-type", "REQUEST answered with %v", mt)
			return
		}
	}
	res.Classes = append(res.Classes, "answered")
	return
}

func opcodeOf(b []byte) string {
	if len(b) == 0 {
		return "none"
	}
	return fmt.Sprint(b[0])
}

func typeOf(req *dhcpv4.DHCPv4) string {
	if req == nil {
		return "n/a"
	}
	return req.MessageType().String()
}

// EnumR4 enumerates all 256 opcodes x 257 message types (incl. absent) on a fixed body
func EnumR4() []R4Case {
	var out []R4Case
	for op := 0; op < 256; op++ {
		for mt := -1; mt < 256; mt++ {
			p := gen.Pkt4{Op: uint8(op), HType: 1, HLen: 6, Xid: 0xe11e, CHAddr: "020000000001", GIAddr: "10.9.9.9"}
			if mt >= 0 {
				p.Opts = append(p.Opts, gen.Opt4{Code: 53, Hex: gen.H([]byte{byte(mt)})})
			}
			p.Opts = append(p.Opts, gen.Opt4{Code: 61, Hex: "01020000000001"})
			out = append(out, R4Case{Hex: hex.EncodeToString(p.Bytes()), Chain: "pass"})
		}
	}
	return out
}
