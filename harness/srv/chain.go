//go:build verif

// Package srv decides the properties observed through the server itself
// (HandleMsg4/HandleMsg6 via the capture hook): C01, C11, C12, C13, C15, C16.
package srv

import (
	"fmt"
	"net"
	"os"
	"path/filepath"
	"strings"
	"sync"
	"sync/atomic"
	"syscall"

	"github.com/coredhcp/coredhcp/handler"
	"verif/harness/core"
	"verif/harness/plug"
)

var (
	scratchOnce sync.Once
	scratchDir  string
	fileSeq     atomic.Int64
	dbOpens     atomic.Int64
	watchers    atomic.Int64
)

func scratch() string {
	scratchOnce.Do(func() {
		for _, base := range []string{"/dev/shm", os.Getenv("VERIF_WORK"), os.TempDir()} {
			if base == "" {
				continue
			}
			if d, err := os.MkdirTemp(base, "verif-srv-"); err == nil {
				scratchDir = d
				return
			}
		}
	})
	return scratchDir
}

// Cleanup removes scratch files
func Cleanup() {
	if scratchDir != "" {
		os.RemoveAll(scratchDir)
	}
}

func fdBudgetLeft() bool {
	var l syscall.Rlimit
	if syscall.Getrlimit(syscall.RLIMIT_NOFILE, &l) != nil {
		return true
	}
	return dbOpens.Load()+400 < int64(l.Cur)
}

// PluginSpec is one configured plugin of a chain. Arguments are symbolic where
// they name files: "@lease4", "@lease6" (a static lease file listing some pool
// clients), "@db" (a fresh sqlite file)
type PluginSpec struct {
	Name string   `json:"name"`
	Args []string `json:"args,omitempty"`
}

const lease4Text = "# static leases\n02:00:00:00:00:02 10.10.10.52\n00:11:22:33:44:55 10.10.10.55\n02:00:00:00:00:aa:01:02 10.10.10.58\n"
const lease6Text = "# static leases\n02:00:00:00:00:02 2001:db8::52\n00:11:22:33:44:55 2001:db8::55\n"

// valid argument vectors per plugin (several variants each)
var chainArgs4 = map[string][][]string{
	"server_id":     {{"10.10.10.1"}},
	"file":          {{"@lease4"}},
	"range":         {{"@db", "10.10.10.100", "10.10.10.103", "60s"}, {"@db", "10.10.10.100", "10.10.10.101", "1h"}, {"@db", "10.10.10.100", "10.10.10.180", "90s"}},
	"dns":           {{"8.8.8.8", "8.8.4.4"}, {"10.10.10.1"}},
	"router":        {{"10.10.10.1"}, {"10.10.10.1", "10.10.10.2"}},
	"netmask":       {{"255.255.255.0"}, {"255.255.0.0"}},
	"lease_time":    {{"3600s"}, {"90s"}},
	"mtu":           {{"1500"}, {"9000"}},
	"staticroute":   {{"10.20.20.0/24,10.10.10.1"}, {"0.0.0.0/0,10.10.10.1", "10.30.0.0/16,10.10.10.2"}},
	"searchdomains": {{"a.example", "b.example.org"}, {"example.com"}},
	"nbp":           {{"tftp://10.10.10.7/boot.img"}, {"http://10.10.10.8/ipxe.efi"}, {"tftp://boot.example.org/x"}},
	"ipv6only":      {{"300s"}, {}},
	"autoconfigure": {{"1"}, {"DoNotAutoConfigure"}, {}},
	"sleep":         {{"100us"}, {"0s"}},
}

var chainArgs6 = map[string][][]string{
	"server_id":     {{"LL", "00:de:ad:be:ef:00"}},
	"file":          {{"@lease6"}},
	"prefix":        {{"2001:db8:0:1000::/60", "64"}, {"2001:db8:0:1000::/62", "64"}, {"2001:db8:0:1000::/60", "62"}, {"2001:db8:0:1000::/64", "64"}},
	"dns":           {{"2001:4860:4860::8888", "2001:4860:4860::8844"}},
	"searchdomains": {{"a.example", "b.example.org"}},
	"nbp":           {{"http://[2001:db8:a::1]/nbp"}, {"tftp://[2001:db8:a::1]/nbp?params=a%20b"}},
	"sleep":         {{"100us"}},
}

var chainOrder4 = []string{"server_id", "ipv6only", "file", "range", "dns", "router", "netmask", "lease_time", "mtu", "staticroute", "searchdomains", "autoconfigure", "sleep", "nbp"}
var chainOrder6 = []string{"server_id", "file", "prefix", "dns", "searchdomains", "sleep", "nbp"}

func resolveArgs(args []string) []string {
	out := make([]string, len(args))
	for i, a := range args {
		switch a {
		case "@lease4":
			a = filepath.Join(scratch(), fmt.Sprintf("l4-%d.txt", fileSeq.Add(1)))
			os.WriteFile(a, []byte(lease4Text), 0o644)
		case "@lease6":
			a = filepath.Join(scratch(), fmt.Sprintf("l6-%d.txt", fileSeq.Add(1)))
			os.WriteFile(a, []byte(lease6Text), 0o644)
		case "@db":
			a = filepath.Join(scratch(), fmt.Sprintf("db-%d.sqlite", fileSeq.Add(1)))
			dbOpens.Add(1)
		}
		out[i] = a
	}
	return out
}

// chainFiles remembers which files a chain instance created, for removal
type chainInst struct {
	h4    []handler.Handler4
	h6    []handler.Handler6
	files []string
	// refresh: lease files watched by a file plugin instance set up with autorefresh
	refresh []string
}

func (ci *chainInst) cleanup() {
	for _, f := range ci.files {
		os.Remove(f)
		os.Remove(f + "-journal")
	}
}

// buildChain sets the plugins up through Plugin.Setup4/Setup6
func buildChain(v6 bool, specs []PluginSpec) (*chainInst, error) {
	plug.Reset()
	ci := &chainInst{}
	for _, s := range specs {
		p := plug.ByName(s.Name)
		if p == nil {
			return nil, fmt.Errorf("unknown plugin %q", s.Name)
		}
		args := resolveArgs(s.Args)
		for i, a := range s.Args {
			if strings.HasPrefix(a, "@") {
				ci.files = append(ci.files, args[i])
			}
		}
		if s.Name == "file" && len(args) == 2 && args[1] == "autorefresh" {
			// the plugin never releases its inotify instance: bounded per process
			budget := 20
			if core.Thorough() {
				budget = 6 // up to 16 processes, the per-user limit is 128 instances
			}
			if watchers.Load() >= int64(core.EnvInt("VERIF_MAX_WATCHERS", budget)) {
				args = args[:1]
			} else {
				watchers.Add(1)
				ci.refresh = append(ci.refresh, args[0])
			}
		}
		if v6 {
			if p.Setup6 == nil {
				continue
			}
			h, err := p.Setup6(args...)
			if err != nil {
				return nil, fmt.Errorf("%s %v: %w", s.Name, s.Args, err)
			}
			ci.h6 = append(ci.h6, h)
		} else {
			if p.Setup4 == nil {
				continue
			}
			h, err := p.Setup4(args...)
			if err != nil {
				return nil, fmt.Errorf("%s %v: %w", s.Name, s.Args, err)
			}
			ci.h4 = append(ci.h4, h)
		}
	}
	return ci, nil
}

// l2Iface finds an interface whose hardware address has 6 bytes (the Ethernet
// serialiser of the layer-2 path needs one); nil if the sandbox has none
var (
	ifOnce  sync.Once
	ifL2    *net.Interface
	ifOther *net.Interface
	ifAllL2 []*net.Interface
)

// l2List returns every interface with a 6-byte hardware address
func l2List() []*net.Interface {
	ifaces()
	return ifAllL2
}

func ifaces() (l2 *net.Interface, other *net.Interface) {
	ifOnce.Do(func() {
		ifs, _ := net.Interfaces()
		for i := range ifs {
			if len(ifs[i].HardwareAddr) == 6 {
				ifAllL2 = append(ifAllL2, &ifs[i])
				if ifL2 == nil {
					ifL2 = &ifs[i]
				}
			}
		}
		for i := range ifs {
			if ifL2 == nil || ifs[i].Index != ifL2.Index {
				if ifOther == nil {
					ifOther = &ifs[i]
				}
			}
		}
	})
	return ifL2, ifOther
}
