package srv

import (
	"fmt"
	"net"
	"time"

	"verif/harness/core"
	"verif/harness/gen"

	"github.com/coredhcp/coredhcp/config"
	"github.com/coredhcp/coredhcp/server"
	"pgregory.net/rapid"
)

// C12 behind the real start-up path: server.Start with 1..3 DHCPv6 listen addresses on loopback
// (one listener value and one Serve loop per address) and an empty chain. Every listener of the
// server is a listener of C12's statement: a supported message sent to any of them is answered as
// the statement says. The answer is read from the client's own socket, so its destination is the
// source address and port by construction; the rest is verifyReply6, the oracle of TestC12.
type C12StartCase struct {
	Listeners int         `json:"listeners"`
	Sends     []C12StSend `json:"sends"`
}

// C12StSend is one message sent to one listener
type C12StSend struct {
	Listener int  `json:"l"`
	Type     int  `json:"type"`
	Rapid    bool `json:"rapid,omitempty"`
	Depth    int  `json:"depth,omitempty"`
}

// GenC12Start draws a case
func GenC12Start(t *rapid.T) C12StartCase {
	c := C12StartCase{Listeners: rapid.IntRange(1, 3).Draw(t, "listeners")}
	types := []int{gen.M6Solicit, gen.M6Request, gen.M6Confirm, gen.M6Renew, gen.M6Rebind, gen.M6Release, gen.M6InfoRequest}
	// every listener is addressed at least once, in a drawn order, then some more messages
	order := rapid.Permutation(seqInts(c.Listeners)).Draw(t, "order")
	extra := rapid.IntRange(0, 4).Draw(t, "extra")
	for i := 0; i < c.Listeners+extra; i++ {
		l := 0
		if i < c.Listeners {
			l = order[i]
		} else {
			l = rapid.IntRange(0, c.Listeners-1).Draw(t, "listener")
		}
		s := C12StSend{Listener: l, Type: rapid.SampledFrom(types).Draw(t, "type"), Depth: rapid.IntRange(0, 2).Draw(t, "depth")}
		if s.Type == gen.M6Solicit {
			s.Rapid = rapid.Bool().Draw(t, "rapid")
		}
		c.Sends = append(c.Sends, s)
	}
	return c
}

func seqInts(n int) []int {
	out := make([]int, n)
	for i := range out {
		out[i] = i
	}
	return out
}

// exchange6 sends one datagram from a fresh socket and waits up to two seconds for one datagram back
func exchange6(dst *net.UDPAddr, w []byte) (reply []byte, src *net.UDPAddr, ok bool, sockErr bool) {
	cl, err := net.DialUDP("udp6", nil, dst)
	if err != nil {
		return nil, nil, false, true
	}
	defer cl.Close()
	src = cl.LocalAddr().(*net.UDPAddr)
	cl.Write(w)
	cl.SetReadDeadline(time.Now().Add(2 * time.Second))
	buf := make([]byte, 4096)
	n, rerr := cl.Read(buf)
	if rerr != nil {
		return nil, src, false, false
	}
	return buf[:n], src, true, false
}

// ExecC12Start runs one case
func ExecC12Start(c C12StartCase) (res core.Result) {
	registerSyn()
	startMu.Lock()
	defer startMu.Unlock()
	defer func() {
		if r := recover(); r != nil {
			core.HarnessPanic(r)
			res = core.Result{Viol: core.Violate("C12/panic", "server.Start path panicked: %v", r)}
		}
	}()
	if c.Listeners < 1 || c.Listeners > 8 || len(c.Sends) == 0 {
		res.Skipped = "bad-case"
		return
	}
	conf := &config.Config{Server6: &config.ServerConfig{}}
	for i := 0; i < c.Listeners; i++ {
		p := freePort("udp6", "::1")
		if p == 0 {
			res.Skipped = "no-loopback-socket"
			return
		}
		conf.Server6.Addresses = append(conf.Server6.Addresses, net.UDPAddr{IP: net.IPv6loopback, Port: p})
	}
	srv, err := server.Start(conf)
	if err != nil {
		res.Skipped = "start-failed-environment"
		return
	}
	defer srv.Close()
	reached := map[int]bool{}
	answered := 0
	for i, s := range c.Sends {
		if s.Listener < 0 || s.Listener >= c.Listeners || s.Depth < 0 || s.Depth > 4 {
			continue
		}
		m := gen.Msg6Spec{Type: uint8(s.Type), Xid: uint32(0x5c0000 + i), Client: 0, Rapid: s.Rapid}
		for r := 0; r < s.Depth; r++ {
			m.Relays = append(m.Relays, gen.Relay6Spec{Type: gen.M6RelayForw, Hop: uint8(s.Depth - 1 - r), Link: fmt.Sprintf("2001:db8:%x::1", 0xc0+r), Peer: fmt.Sprintf("fe80::%x", 0x10+r), IfaceID: fmt.Sprintf("6c%02x", r)})
		}
		w := m.Bytes()
		dst := &conf.Server6.Addresses[s.Listener]
		reply, src, ok, sockErr := exchange6(dst, w)
		if sockErr {
			res.Skipped = "no-loopback-socket"
			return
		}
		if !ok {
			// Silence is a verdict only on positive evidence that the machine is not merely slow: the
			// message is sent three more times and stays unanswered every time, while a message to
			// another listener of the same server, sent right after each, is answered in time.
			if c.Listeners < 2 {
				res.Skipped = "no-reply-in-time"
				return
			}
			silent, controls := 0, 0
			for k := 0; k < 3; k++ {
				if _, _, ok2, _ := exchange6(dst, w); ok2 {
					break
				}
				silent++
				for o := 0; o < c.Listeners; o++ {
					if o == s.Listener {
						continue
					}
					ctl := gen.Msg6Spec{Type: gen.M6Solicit, Xid: uint32(0x5c8000 + i*16 + k*4 + o), Client: 1}
					if _, _, okc, _ := exchange6(&conf.Server6.Addresses[o], ctl.Bytes()); okc {
						controls++
						break
					}
				}
			}
			if silent == 3 && controls == 3 {
				res.Viol = core.Violate("C12/start/request-not-answered", "message %d (type %d, relay depth %d) sent to listen address #%d of %d (%v) four times, 2 s each: no reply, while another listen address of the same server answered a SOLICIT after each attempt; every listener of the server answers supported messages", i, s.Type, s.Depth, s.Listener, c.Listeners, dst.String())
				return
			}
			res.Skipped = "no-reply-in-time"
			return
		}
		v := verifyReply6(w, []server.Sent{{Payload: reply, Peer: src}}, src, 0, 0, true)
		if v.Viol != nil {
			v.Viol.Message = fmt.Sprintf("message %d to listen address #%d of %d: %s", i, s.Listener, c.Listeners, v.Viol.Message)
			res.Viol = v.Viol
			return
		}
		answered++
		reached[s.Listener] = true
	}
	res.Classes = []string{fmt.Sprintf("listeners:%d", c.Listeners), fmt.Sprintf("reached:%d", len(reached))}
	// non-trivial: two different listen addresses answered
	res.NonTrivial = len(reached) >= 2 && answered >= 2
	return
}
