//go:build verif

package srv

import (
	"bytes"
	"encoding/hex"
	"fmt"
	"net"

	"github.com/coredhcp/coredhcp/handler"
	"github.com/coredhcp/coredhcp/server"
	"github.com/insomniacslk/dhcp/dhcpv6"
	"golang.org/x/net/ipv6"
	"pgregory.net/rapid"
	"verif/harness/core"
	"verif/harness/gen"
)

// R6Case is one datagram fed to HandleMsg6 with an empty chain
type R6Case struct {
	Hex     string `json:"hex"`
	Src     string `json:"src"`
	Port    int    `json:"port"`
	Bound   bool   `json:"bound,omitempty"`
	RecvIf  int    `json:"recvif"` // interface index in the control message of the request
	Mutated bool   `json:"mutated,omitempty"`
	// Listen: "" (hand-built listener) | zone (opened by the server's own listen6 for ListenIP%<interface>:
	// must behave as bound) | nozone (opened by listen6 without a zone: unbound, must get interface information)
	Listen   string `json:"listen,omitempty"`
	ListenIP string `json:"listenip,omitempty"` // "" (::) | ::1 | own (a global address of this host)
}

// GenR6 draws one case
func GenR6(t *rapid.T) R6Case {
	var c R6Case
	m := gen.GenMsg6(t)
	b := m.Bytes()
	if gen.Chance(t, "mutate", 1, 6) {
		b = gen.MutateBytes(t, b, gen.GenMsg6(t).Bytes())
		c.Mutated = true
	}
	if len(b) > 65000 {
		b = b[:65000] // a UDP datagram carries at most 65527 bytes over IPv6: longer ones cannot arrive
	}
	c.Hex = hex.EncodeToString(b)
	c.Src = rapid.SampledFrom([]string{"fe80::1", "fe80::211:22ff:fe33:4455", "2001:db8::99", "2001:db8:1::1", "::1", "fd00::5"}).Draw(t, "src")
	c.Port = rapid.SampledFrom([]int{546, 547, 1024, 65535, 1}).Draw(t, "port")
	c.Bound = rapid.Bool().Draw(t, "bound")
	c.RecvIf = rapid.SampledFrom([]int{1, 2, 3, 4, 77}).Draw(t, "recvif")
	if rapid.IntRange(0, 11).Draw(t, "real-listen") == 0 {
		c.Listen = rapid.SampledFrom([]string{"zone", "nozone", "nozone"}).Draw(t, "listen-kind")
		c.ListenIP = rapid.SampledFrom([]string{"", "::1", "own"}).Draw(t, "listen-ip")
	}
	return c
}

// ownIPv6 is a global IPv6 address of this host
func ownIPv6() net.IP {
	ifs, _ := net.Interfaces()
	for _, i := range ifs {
		if i.Flags&net.FlagLoopback != 0 || i.Flags&net.FlagUp == 0 {
			continue
		}
		addrs, _ := i.Addrs()
		for _, a := range addrs {
			if n, ok := a.(*net.IPNet); ok && n.IP.To4() == nil && n.IP.IsGlobalUnicast() {
				return n.IP
			}
		}
	}
	return nil
}

func feed6(cap6 *server.Capture6, dgram []byte, oob *ipv6.ControlMessage, peer *net.UDPAddr) (sent []server.Sent, panicked interface{}) {
	defer func() {
		if r := recover(); r != nil {
			core.HarnessPanic(r)
			panicked = r
		}
	}()
	return cap6.Feed(dgram, oob, peer), nil
}

// layer6 is one relay layer read with the harness's own walker
type layer6 struct {
	typ        uint8
	link, peer net.IP
	ifaceID    []byte
	hasIfaceID bool
	inner      []byte
	hasInner   bool
}

func readRelay(b []byte) (l layer6, ok bool) {
	if len(b) < 34 {
		return l, false
	}
	l.typ = b[0]
	l.link, l.peer = net.IP(b[2:18]), net.IP(b[18:34])
	tlvs, okp := gen.Options6(b[34:])
	if !okp {
		return l, false
	}
	for _, t := range tlvs {
		switch t.Code {
		case gen.O6InterfaceID:
			if !l.hasIfaceID {
				l.ifaceID, l.hasIfaceID = t.Data, true
			}
		case gen.O6RelayMsg:
			if !l.hasInner {
				l.inner, l.hasInner = t.Data, true
			}
		}
	}
	return l, true
}

var supported6 = map[uint8]bool{gen.M6Solicit: true, gen.M6Request: true, gen.M6Confirm: true, gen.M6Renew: true, gen.M6Rebind: true, gen.M6Release: true, gen.M6InfoRequest: true}

// ExecR6 checks C12 on one datagram (empty chain: nothing but the server can drop)
func ExecR6(c R6Case) (res core.Result) {
	return execR6(c, nil)
}

func execR6(c R6Case, hs []handler.Handler6) (res core.Result) {
	dgram, _ := hex.DecodeString(c.Hex)
	if len(dgram) > 65527 {
		// not a datagram UDP over IPv6 can carry (the capture hook would hand the server a prefix of it)
		res.Skipped = "bad-case"
		return
	}
	l2, _ := ifaces()
	var cap6 *server.Capture6
	boundIdx := 0
	if c.Listen != "" {
		ip := net.IPv6unspecified
		switch c.ListenIP {
		case "own":
			if ip = ownIPv6(); ip == nil {
				res.Skipped = "no-own-ipv6-address"
				return
			}
		case "":
		default:
			ip = net.ParseIP(c.ListenIP)
		}
		zone := ""
		if c.Listen == "zone" {
			if l2 == nil {
				res.Skipped = "no-interface"
				return
			}
			zone, boundIdx = l2.Name, l2.Index
		}
		var err error
		var probed, ifInfo bool
		for try := 0; try < 8; try++ {
			port := 20000 + int(listenPort.Add(1)*7919%40000)
			if tmp, e := net.ListenUDP("udp6", &net.UDPAddr{IP: net.IPv6loopback}); e == nil {
				port = tmp.LocalAddr().(*net.UDPAddr).Port
				tmp.Close()
			}
			cap6, probed, ifInfo, err = server.NewListening6(&net.UDPAddr{IP: ip, Port: port, Zone: zone}, hs)
			if err == nil {
				break
			}
		}
		if err != nil {
			res.Skipped = "cannot-listen"
			return
		}
		if zone == "" && probed && !ifInfo {
			res.Viol = core.Violate("C12/unbound-listener-without-interface-information", "listen address %v (no zone): the socket does not report the interface a datagram arrived on, so a reply to a link-local source cannot be pinned to it", ip)
			return
		}
	} else if c.Bound && l2 != nil {
		cap6 = server.NewCapture6(hs, l2)
		boundIdx = l2.Index
	} else {
		cap6 = server.NewCapture6(hs, nil)
	}
	peer := &net.UDPAddr{IP: net.ParseIP(c.Src), Port: c.Port}
	sent, pan := feed6(cap6, dgram, &ipv6.ControlMessage{IfIndex: c.RecvIf}, peer)
	if pan != nil {
		res.Classes = []string{"abandoned:panic"}
		return
	}
	return verifyReply6(dgram, sent, peer, boundIdx, c.RecvIf, len(hs) == 0)
}

// verifyReply6 is the C12 oracle for one datagram and what the server sent for it
func verifyReply6(dgram []byte, sent []server.Sent, peer *net.UDPAddr, boundIdx, recvIf int, emptyChain bool) (res core.Result) {
	// reference classification
	d, perr := dhcpv6.FromBytes(dgram)
	class := "answerable"
	var inner *dhcpv6.Message
	var layers []layer6 // request layers, outermost first, read by the harness
	switch {
	case perr != nil:
		class = "unparseable"
	default:
		var err error
		inner, err = d.GetInnerMessage()
		switch {
		case err != nil || inner == nil:
			class = "no-inner-message"
		case !supported6[uint8(inner.MessageType)]:
			class = "unsupported-type"
		case inner.GetOneOption(dhcpv6.OptionClientID) == nil:
			class = "no-client-id"
		case d.IsRelay() && dgram[0] != gen.M6RelayForw:
			class = "outer-not-relay-forward"
		}
	}
	if perr == nil && d.IsRelay() && class == "answerable" {
		b := dgram
		for len(b) > 0 && (b[0] == gen.M6RelayForw || b[0] == gen.M6RelayRepl) {
			l, ok := readRelay(b)
			if !ok || !l.hasInner {
				break
			}
			layers = append(layers, l)
			b = l.inner
		}
	}
	depth := len(layers)
	res.Classes = []string{class, fmt.Sprintf("relay-depth:%d", depth)}
	res.NonTrivial = class == "answerable" || (perr == nil && d.IsRelay())
	if len(sent) > 1 {
		res.Viol = core.Violate("C12/more-than-one-reply", "%d datagrams sent for one request", len(sent))
		return
	}
	if class != "answerable" {
		if len(sent) != 0 {
			res.Viol = core.Violate("C12/answered-unanswerable/"+class, "datagram classified %q was answered", class)
		}
		return
	}
	if len(sent) == 0 {
		if emptyChain {
			res.Viol = core.Violate("C12/request-not-answered", "a type %d message with client id (relay depth %d) got no reply", inner.MessageType, depth)
		}
		return
	}
	s := sent[0]
	// destination: back to the source address and port
	if s.Peer == nil || !s.Peer.IP.Equal(peer.IP) || s.Peer.Port != peer.Port {
		res.Viol = core.Violate("C12/wrong-destination", "reply sent to %v, request came from %v", s.Peer, peer)
		return
	}
	if peer.IP.IsLinkLocalUnicast() {
		want := recvIf
		if boundIdx != 0 {
			want = boundIdx
		}
		if !s.HasCM || s.IfIndex != want {
			res.Viol = core.Violate("C12/link-local-reply-not-pinned", "source %v is link-local: reply must leave on interface %d (bound: %v), control message present=%v ifindex=%d", peer.IP, want, boundIdx != 0, s.HasCM, s.IfIndex)
			return
		}
	}
	if !peer.IP.IsLinkLocalUnicast() && s.HasCM && s.IfIndex != 0 && s.IfIndex != recvIf && s.IfIndex != boundIdx {
		// whether replies to global sources are pinned at all is not asserted; pinning one to an interface that is
		// neither the listener's nor the one the request arrived on can only be state left by another datagram
		res.Viol = core.Violate("C12/reply-pinned-to-unrelated-interface", "reply to %v carries interface index %d; the request arrived on %d, the listener is bound to %d", peer.IP, s.IfIndex, recvIf, boundIdx)
		return
	}
	// peel the reply's layers
	b := s.Payload
	for i := 0; i < depth; i++ {
		l, ok := readRelay(b)
		if !ok || l.typ != gen.M6RelayRepl {
			res.Viol = core.Violate("C12/relay-layers", "reply layer %d of %d is not a Relay-Reply (first byte %d)", i, depth, first(b))
			return
		}
		q := layers[i]
		if !l.link.Equal(q.link) || !l.peer.Equal(q.peer) {
			res.Viol = core.Violate("C12/relay-addresses-not-mirrored", "layer %d: reply link %v peer %v, request link %v peer %v", i, l.link, l.peer, q.link, q.peer)
			return
		}
		if l.hasIfaceID != q.hasIfaceID || !bytes.Equal(l.ifaceID, q.ifaceID) {
			res.Viol = core.Violate("C12/interface-id-not-mirrored", "layer %d: reply interface-id %x (present %v), request %x (present %v)", i, l.ifaceID, l.hasIfaceID, q.ifaceID, q.hasIfaceID)
			return
		}
		if !l.hasInner {
			res.Viol = core.Violate("C12/relay-layers", "reply layer %d has no relay message", i)
			return
		}
		b = l.inner
	}
	if len(b) < 4 || b[0] == gen.M6RelayForw || b[0] == gen.M6RelayRepl {
		res.Viol = core.Violate("C12/relay-layers", "reply has more relay layers than the request (%d)", depth)
		return
	}
	// the server's answer to the innermost message
	wantType := uint8(gen.M6Reply)
	rapidCommit := inner.GetOneOption(dhcpv6.OptionRapidCommit) != nil
	if uint8(inner.MessageType) == gen.M6Solicit && !rapidCommit {
		wantType = gen.M6Advertise
	}
	if b[0] != wantType {
		res.Viol = core.Violate("C12/wrong-reply-type", "type %d (rapid commit %v) answered with type %d, want %d", inner.MessageType, rapidCommit, b[0], wantType)
		return
	}
	if !bytes.Equal(b[1:4], inner.TransactionID[:]) {
		res.Viol = core.Violate("C12/xid-differs", "reply transaction id %x, request %x", b[1:4], inner.TransactionID[:])
		return
	}
	tlvs, ok := gen.Options6(b[4:])
	if !ok {
		res.Viol = core.Violate("C12/reply-malformed", "reply options do not parse")
		return
	}
	wantCID := inner.GetOneOption(dhcpv6.OptionClientID).ToBytes()
	ncid, nrc := 0, 0
	for _, tl := range tlvs {
		if tl.Code == gen.O6ClientID {
			ncid++
			if !bytes.Equal(tl.Data, wantCID) {
				res.Viol = core.Violate("C12/client-id-differs", "reply client id %x, request %x", tl.Data, wantCID)
				return
			}
		}
		if tl.Code == gen.O6RapidCommit {
			nrc++
		}
	}
	if ncid != 1 {
		res.Viol = core.Violate("C12/client-id-differs", "reply carries %d client identifiers", ncid)
		return
	}
	if uint8(inner.MessageType) == gen.M6Solicit && rapidCommit && nrc == 0 {
		res.Viol = core.Violate("C12/rapid-commit-not-echoed", "SOLICIT with Rapid Commit answered without the option")
		return
	}
	res.Classes = append(res.Classes, "answered")
	return
}

func first(b []byte) int {
	if len(b) == 0 {
		return -1
	}
	return int(b[0])
}

// EnumR6 enumerates type x client-id x rapid-commit x relay depth 0..2
func EnumR6() []R6Case {
	var out []R6Case
	for mt := 0; mt < 256; mt++ {
		for _, cl := range []int{0, -1} {
			for _, rc := range []bool{false, true} {
				for depth := 0; depth <= 2; depth++ {
					m := gen.Msg6Spec{Type: uint8(mt), Xid: 0xc0ffee, Client: cl, Rapid: rc}
					for i := 0; i < depth; i++ {
						m.Relays = append(m.Relays, gen.Relay6Spec{Type: gen.M6RelayForw, Hop: uint8(depth - 1 - i), Link: "2001:db8::1", Peer: "fe80::1", IfaceID: gen.H([]byte{byte(i), 'x'})})
					}
					out = append(out, R6Case{Hex: hex.EncodeToString(m.Bytes()), Src: []string{"fe80::1", "2001:db8::99"}[mt%2], Port: 546, RecvIf: 2, Bound: mt%3 == 0})
				}
			}
		}
	}
	return out
}
