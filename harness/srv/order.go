//go:build verif

package srv

import (
	"encoding/hex"
	"fmt"
	"hash/fnv"
	"net"
	"os"
	"path/filepath"
	"sort"
	"strings"
	"sync"
	"sync/atomic"
	"time"

	"github.com/coredhcp/coredhcp/config"
	"github.com/coredhcp/coredhcp/handler"
	"github.com/coredhcp/coredhcp/plugins"
	"github.com/coredhcp/coredhcp/server"
	"github.com/insomniacslk/dhcp/dhcpv4"
	"github.com/insomniacslk/dhcp/dhcpv6"
	"github.com/insomniacslk/dhcp/iana"
	"golang.org/x/net/ipv4"
	"golang.org/x/net/ipv6"
	"pgregory.net/rapid"
	"verif/harness/core"
	"verif/harness/gen"
	"verif/harness/plug"
)

// synthetic plugins: syn_both_N (DHCPv4 and DHCPv6), syn_v4_N, syn_v6_N. Their
// behaviour is chosen by the first argument:
//   pass | modify:<tag> | replace:<tag> | stop:<tag> | stopnil | setupfail | nilhandler
// Every invocation is logged.

type invocation struct {
	Proto   int
	ID      string // instance id = second argument
	Markers string // markers found on the incoming response
	ReqXid  uint32
	ReqSum  uint64 // FNV-64a of the request as the handler received it, serialised again
}

func sum64(b []byte) uint64 {
	h := fnv.New64a()
	h.Write(b)
	return h.Sum64()
}

// origSum: what a handler must have received for the datagram sent - the datagram as the
// library parses it, serialised again (0: the datagram does not parse, nothing is compared).
func origSum(proto int, datagram []byte) uint64 {
	if proto == 4 {
		if m, err := dhcpv4.FromBytes(datagram); err == nil {
			return sum64(m.ToBytes())
		}
		return 0
	}
	if m, err := dhcpv6.FromBytes(datagram); err == nil {
		return sum64(m.ToBytes())
	}
	return 0
}

var (
	synOnce sync.Once
	logMu   sync.Mutex
	invLog  []invocation
)

const markOpt4 = 224   // private-use DHCPv4 option carrying the markers
const markOpt6 = 65001 // private DHCPv6 option carrying the markers

func markers4(r *dhcpv4.DHCPv4) string {
	return string(r.Options.Get(dhcpv4.GenericOptionCode(markOpt4)))
}
func markers6(r dhcpv6.DHCPv6) string {
	m, ok := r.(*dhcpv6.Message)
	if !ok {
		return "?"
	}
	if o := m.GetOneOption(dhcpv6.OptionCode(markOpt6)); o != nil {
		return string(o.(*dhcpv6.OptionGeneric).OptionData)
	}
	return ""
}

func addMark4(r *dhcpv4.DHCPv4, tag string) {
	r.UpdateOption(dhcpv4.OptGeneric(dhcpv4.GenericOptionCode(markOpt4), []byte(markers4(r)+tag)))
}

func addMark6(r dhcpv6.DHCPv6, tag string) {
	cur := markers6(r)
	r.UpdateOption(&dhcpv6.OptionGeneric{OptionCode: dhcpv6.OptionCode(markOpt6), OptionData: []byte(cur + tag)})
}

// synSetupDelay makes every synthetic setup function take that long (nanoseconds): start-up is
// then long enough for requests to arrive while it is still going on
var synSetupDelay atomic.Int64

func synSetup4(args ...string) (handler.Handler4, error) {
	if len(args) < 2 {
		return nil, fmt.Errorf("syn: need behaviour and id")
	}
	if d := synSetupDelay.Load(); d > 0 {
		time.Sleep(time.Duration(d))
	}
	beh, id := args[0], args[1]
	logMu.Lock()
	setupCalls["4/"+id]++
	logMu.Unlock()
	switch beh {
	case "setupfail":
		return nil, fmt.Errorf("syn %s: setup fails on purpose", id)
	case "nilhandler":
		return nil, nil
	}
	return func(req, resp *dhcpv4.DHCPv4) (out *dhcpv4.DHCPv4, stop bool) {
		rx := uint32(req.TransactionID[0])<<24 | uint32(req.TransactionID[1])<<16 | uint32(req.TransactionID[2])<<8 | uint32(req.TransactionID[3])
		logMu.Lock()
		invLog = append(invLog, invocation{4, id, markers4(resp), rx, sum64(req.ToBytes())})
		logMu.Unlock()
		// what this handler returns, as it is at the moment it returns
		defer func() {
			var snap []byte
			if out != nil {
				snap = out.ToBytes()
			}
			logMu.Lock()
			lastRet[4<<32|uint64(rx)] = snap
			logMu.Unlock()
		}()
		kind, tag, _ := strings.Cut(beh, ":")
		switch kind {
		case "modify":
			addMark4(resp, tag)
			return resp, false
		case "untype":
			// the response loses its message type (a plain BOOTP reply)
			addMark4(resp, tag)
			delete(resp.Options, uint8(dhcpv4.OptionDHCPMessageType))
			return resp, false
		case "badtype":
			addMark4(resp, tag)
			resp.UpdateOption(dhcpv4.OptGeneric(dhcpv4.OptionDHCPMessageType, []byte{5, 0}))
			return resp, false
		case "retype":
			// the response becomes a NAK
			addMark4(resp, tag)
			resp.UpdateOption(dhcpv4.OptMessageType(dhcpv4.MessageTypeNak))
			return resp, false
		case "modifyx":
			addMark4(resp, tag)
			resp.UpdateOption(dhcpv4.OptMessage("no address available"))
			return resp, false
		case "replace":
			n, _ := dhcpv4.FromBytes(resp.ToBytes())
			addMark4(n, tag)
			return n, false
		case "stop":
			addMark4(resp, tag)
			return resp, true
		case "stopnil":
			return nil, true
		}
		return resp, false
	}, nil
}

func synSetup6(args ...string) (handler.Handler6, error) {
	if len(args) < 2 {
		return nil, fmt.Errorf("syn: need behaviour and id")
	}
	if d := synSetupDelay.Load(); d > 0 {
		time.Sleep(time.Duration(d))
	}
	beh, id := args[0], args[1]
	logMu.Lock()
	setupCalls["6/"+id]++
	logMu.Unlock()
	switch beh {
	case "setupfail":
		return nil, fmt.Errorf("syn %s: setup fails on purpose", id)
	case "nilhandler":
		return nil, nil
	}
	return func(req, resp dhcpv6.DHCPv6) (out dhcpv6.DHCPv6, stop bool) {
		xid := uint32(0)
		if m, err := req.GetInnerMessage(); err == nil {
			xid = uint32(m.TransactionID[0])<<16 | uint32(m.TransactionID[1])<<8 | uint32(m.TransactionID[2])
		}
		logMu.Lock()
		invLog = append(invLog, invocation{6, id, markers6(resp), xid, sum64(req.ToBytes())})
		logMu.Unlock()
		defer func() {
			var snap []byte
			if out != nil {
				snap = out.ToBytes()
			}
			logMu.Lock()
			lastRet[6<<32|uint64(xid)] = snap
			logMu.Unlock()
		}()
		kind, tag, _ := strings.Cut(beh, ":")
		switch kind {
		case "modify", "untype", "badtype":
			addMark6(resp, tag)
			return resp, false
		case "retype":
			// the response becomes an ADVERTISE/REPLY of the other kind
			addMark6(resp, tag)
			if m, ok := resp.(*dhcpv6.Message); ok {
				if m.MessageType == dhcpv6.MessageTypeAdvertise {
					m.MessageType = dhcpv6.MessageTypeReply
				} else {
					m.MessageType = dhcpv6.MessageTypeAdvertise
				}
			}
			return resp, false
		case "modifyx":
			addMark6(resp, tag)
			resp.AddOption(&dhcpv6.OptStatusCode{StatusCode: iana.StatusNoAddrsAvail, StatusMessage: "none"})
			return resp, false
		case "replace":
			n, _ := dhcpv6.FromBytes(resp.ToBytes())
			addMark6(n, tag)
			return n, false
		case "stop":
			addMark6(resp, tag)
			return resp, true
		case "stopnil":
			return nil, true
		}
		return resp, false
	}, nil
}

var synNames = []string{"syn_both_0", "syn_both_1", "syn_both_2", "syn_v4_0", "syn_v4_1", "syn_v6_0", "syn_v6_1"}

func registerSyn() {
	synOnce.Do(func() {
		for _, n := range synNames {
			p := &plugins.Plugin{Name: n}
			if !strings.HasPrefix(n, "syn_v6") {
				p.Setup4 = synSetup4
			}
			if !strings.HasPrefix(n, "syn_v4") {
				p.Setup6 = synSetup6
			}
			if err := plugins.RegisterPlugin(p); err != nil {
				panic(err)
			}
		}
		// the built-ins are registered next to them, as main() does
		for _, p := range plug.All {
			if _, ok := plugins.RegisteredPlugins[p.Name]; !ok {
				_ = plugins.RegisterPlugin(p)
			}
		}
	})
}

// OEntry is one configured plugin of a C13 case
type OEntry struct {
	Name string `json:"name"`
	Beh  string `json:"beh"`
}

// OCase is a configuration of synthetic plugins
type OCase struct {
	Has4 bool     `json:"has4"`
	Has6 bool     `json:"has6"`
	L4   []OEntry `json:"l4,omitempty"`
	L6   []OEntry `json:"l6,omitempty"`
	// ViaYAML: the configuration is written as a YAML file and read with config.Load, as main() does,
	// instead of being built as a config.Config value
	ViaYAML bool `json:"viayaml,omitempty"`
	// Relay6: the DHCPv6 request arrives through that many Relay-Forward layers (what is sent is then
	// the response returned last inside as many Relay-Reply layers)
	Relay6 int `json:"relay6,omitempty"`
	// Reload: plugins.LoadPlugins is called a second time on the same configuration value and the
	// whole comparison is repeated with the handlers it returns
	Reload bool `json:"reload,omitempty"`
}

// GenO draws a configuration
func GenO(t *rapid.T) OCase {
	var c OCase
	w := rapid.IntRange(0, 5).Draw(t, "sections")
	c.Has4, c.Has6 = w != 1, w != 0
	entry := func() OEntry {
		e := OEntry{Name: rapid.SampledFrom(append(append([]string{}, synNames...), synNames[0], synNames[1])).Draw(t, "name")}
		if gen.Chance(t, "unknown", 1, 20) {
			e.Name = rapid.SampledFrom([]string{"nosuchplugin", "Syn_both_0", "syn_both_00", ""}).Draw(t, "unknown-name")
		}
		k := rapid.IntRange(0, 19).Draw(t, "beh")
		tag := string(rune('a' + rapid.IntRange(0, 25).Draw(t, "tag")))
		switch {
		case k <= 4:
			e.Beh = "pass"
		case k <= 8:
			e.Beh = "modify:" + tag
		case k == 9:
			// modifies the response in a way a server might be tempted to read or to put right: a
			// message-level status code that is not Success (DHCPv6), an error message option
			// (DHCPv4), a response without / with a malformed / with another message type
			e.Beh = rapid.SampledFrom([]string{"modifyx", "modifyx", "untype", "badtype", "retype"}).Draw(t, "odd-modify") + ":" + tag
		case k <= 12:
			e.Beh = "replace:" + tag
		case k <= 15:
			e.Beh = "stop:" + tag
		case k <= 17:
			e.Beh = "stopnil"
		case k == 18:
			e.Beh = "setupfail"
		default:
			e.Beh = "nilhandler"
		}
		return e
	}
	if c.Has4 {
		n := rapid.IntRange(0, 5).Draw(t, "n4")
		for i := 0; i < n; i++ {
			c.L4 = append(c.L4, entry())
		}
	}
	if c.Has6 {
		n := rapid.IntRange(0, 5).Draw(t, "n6")
		for i := 0; i < n; i++ {
			c.L6 = append(c.L6, entry())
		}
	}
	c.ViaYAML = rapid.IntRange(0, 2).Draw(t, "via-yaml") == 0
	c.Reload = rapid.IntRange(0, 3).Draw(t, "reload") == 0
	if rapid.IntRange(0, 2).Draw(t, "relayed6") == 0 {
		c.Relay6 = rapid.IntRange(1, 2).Draw(t, "relay6")
	}
	if c.ViaYAML {
		// key case is folded by the YAML loader and an empty key is not a plugin name: keep to plain unknown names
		for _, l := range [][]OEntry{c.L4, c.L6} {
			for i := range l {
				if l[i].Name == "Syn_both_0" || l[i].Name == "" {
					l[i].Name = "nosuchplugin"
				}
			}
		}
	}
	return c
}

func renderO(c *OCase) string {
	var sb strings.Builder
	sec := func(name string, l []OEntry, proto int) {
		sb.WriteString(name + ":\n  listen: '" + map[int]string{4: "127.0.0.1:6767", 6: "[::1]:5470"}[proto] + "'\n  plugins:\n")
		for i, e := range l {
			sb.WriteString(fmt.Sprintf("    - %s: %s %d.%d\n", e.Name, e.Beh, proto, i))
		}
	}
	if c.Has6 {
		sec("server6", c.L6, 6)
	}
	if c.Has4 {
		sec("server4", c.L4, 4)
	}
	return sb.String()
}

// expectLoad interprets the statement: which handlers exist, or must loading fail
func expectLoad(l []OEntry, v6 bool) (ids []int, fail string) {
	for i, e := range l {
		known := false
		for _, n := range synNames {
			if n == e.Name {
				known = true
			}
		}
		if !known {
			return nil, "unknown-plugin"
		}
		supports := (v6 && !strings.HasPrefix(e.Name, "syn_v4")) || (!v6 && !strings.HasPrefix(e.Name, "syn_v6"))
		if !supports {
			continue
		}
		if e.Beh == "setupfail" || e.Beh == "nilhandler" {
			return nil, "setup-fails"
		}
		ids = append(ids, i)
	}
	return ids, ""
}

// expectRun interprets the dispatch: invocation log and final markers; sent=false when nothing goes out
func expectRun(l []OEntry, ids []int, proto int) (log []invocation, final string, sent bool) {
	cur := ""
	for _, i := range ids {
		e := l[i]
		log = append(log, invocation{Proto: proto, ID: fmt.Sprintf("%d.%d", proto, i), Markers: cur})
		kind, tag, _ := strings.Cut(e.Beh, ":")
		switch kind {
		case "modify", "modifyx", "replace", "untype", "badtype", "retype":
			cur += tag
		case "stop":
			return log, cur + tag, true
		case "stopnil":
			return log, "", false
		}
	}
	return log, cur, true
}

// ExecO runs one configuration through plugins.LoadPlugins and the server
func ExecO(c OCase) (res core.Result) {
	registerSyn()
	defer func() {
		if r := recover(); r != nil {
			core.HarnessPanic(r)
			res = core.Result{Viol: core.Violate("C13/panic", "panic: %v", r)}
		}
	}()
	conf := &config.Config{}
	mk := func(l []OEntry, proto int) *config.ServerConfig {
		sc := &config.ServerConfig{}
		for i, e := range l {
			sc.Plugins = append(sc.Plugins, config.PluginConfig{Name: e.Name, Args: []string{e.Beh, fmt.Sprintf("%d.%d", proto, i)}})
		}
		return sc
	}
	if c.Has4 {
		conf.Server4 = mk(c.L4, 4)
	}
	if c.Has6 {
		conf.Server6 = mk(c.L6, 6)
	}
	var ids4, ids6 []int
	fail := ""
	if c.Has6 {
		ids6, fail = expectLoad(c.L6, true)
	}
	if fail == "" && c.Has4 {
		ids4, fail = expectLoad(c.L4, false)
	}
	if !c.Has4 && !c.Has6 {
		fail = "no-section"
	}
	if c.ViaYAML {
		emptySection := (c.Has4 && len(c.L4) == 0) || (c.Has6 && len(c.L6) == 0) || (!c.Has4 && !c.Has6)
		if emptySection && fail == "" {
			fail = "empty-plugins-section" // rejected by the loader of the file (C18)
		}
		path := filepath.Join(scratch(), fmt.Sprintf("c13-%d.yml", fileSeq.Add(1)))
		os.WriteFile(path, []byte(renderO(&c)), 0o644)
		loaded, lerr := config.Load(path)
		os.Remove(path)
		if lerr != nil {
			res.Classes = []string{"load-fails:" + fail, "via-yaml"}
			res.NonTrivial = true
			if !emptySection {
				res.Viol = core.Violate("C13/yaml-config-rejected", "config.Load rejected a configuration of synthetic plugins: %v\n%s", lerr, renderO(&c))
			}
			return
		}
		conf = loaded
	}
	h4, h6, err := plugins.LoadPlugins(conf)
	if fail != "" {
		res.Classes = []string{"load-fails:" + fail}
		res.NonTrivial = true
		if err == nil {
			res.Viol = core.Violate("C13/load-accepts-invalid/"+fail, "LoadPlugins must fail (%s) for v4 %v v6 %v", fail, c.L4, c.L6)
		}
		return
	}
	if err != nil {
		res.Viol = core.Violate("C13/load-rejects-valid", "LoadPlugins failed: %v (v4 %v v6 %v)", err, c.L4, c.L6)
		return
	}
	if len(h4) != len(ids4) || len(h6) != len(ids6) {
		res.Viol = core.Violate("C13/handler-count", "LoadPlugins returned %d/%d handlers, the configuration lists %d/%d plugins supporting the protocols", len(h4), len(h6), len(ids4), len(ids6))
		return
	}
	res.Classes = []string{"loaded"}
	if c.ViaYAML {
		res.Classes = append(res.Classes, "via-yaml")
	}
	interesting := false
	rounds := 1
	if c.Reload {
		rounds = 2
	}
	secondRound := false
	defer func() {
		if secondRound && res.Viol != nil {
			res.Viol.Message = "after plugins.LoadPlugins was called a second time on the same configuration value (a restart of the servers): " + res.Viol.Message
		}
	}()
	for round := 0; round < rounds; round++ {
		if round == 1 {
			secondRound = true
			res.Classes = append(res.Classes, "loaded-twice")
			h4, h6, err = plugins.LoadPlugins(conf)
			if err != nil {
				res.Viol = core.Violate("C13/load-rejects-valid", "LoadPlugins failed: %v (v4 %v v6 %v)", err, c.L4, c.L6)
				return
			}
			if len(h4) != len(ids4) || len(h6) != len(ids6) {
				res.Viol = core.Violate("C13/handler-count", "LoadPlugins returned %d/%d handlers, the configuration lists %d/%d plugins supporting the protocols", len(h4), len(h6), len(ids4), len(ids6))
				return
			}
		}
		// ---- DHCPv4 dispatch
		if c.Has4 {
			logMu.Lock()
			invLog = nil
			lastRet = map[uint64][]byte{}
			logMu.Unlock()
			p := gen.Pkt4{Op: 1, HType: 1, HLen: 6, Xid: 0x0c130004, CHAddr: "020000000001", GIAddr: "10.9.9.9"}
			p.Opts = []gen.Opt4{{Code: 53, Hex: "01"}}
			reqB4 := p.Bytes()
			sent, pan := feed4(server.NewCapture4(h4, nil), append([]byte(nil), reqB4...), &ipv4.ControlMessage{IfIndex: 1}, &net.UDPAddr{IP: net.IPv4(10, 9, 9, 9), Port: 67})
			if pan != nil {
				res.Viol = core.Violate("C13/panic", "HandleMsg4 panicked: %v", pan)
				return
			}
			wantLog, final, wantSent := expectRun(c.L4, ids4, 4)
			if v := cmpLog(wantLog, 0x0c130004, origSum(4, reqB4)); v != nil {
				res.Viol = v
				return
			}
			if wantSent != (len(sent) == 1) {
				res.Viol = core.Violate("C13/v4/sent-mismatch", "chain %v: %d datagrams sent, expected sent=%v", c.L4, len(sent), wantSent)
				return
			}
			if wantSent {
				rep, err := dhcpv4.FromBytes(sent[0].Payload)
				if err != nil || markers4(rep) != final {
					res.Viol = core.Violate("C13/v4/wrong-response-sent", "chain %v: the reply carries markers %q, the response returned last carries %q (err %v)", c.L4, markers4safe(rep), final, err)
					return
				}
				if snap, ok := returnedLast(4, 0x0c130004); ok && len(ids4) > 0 {
					a, errA := canon4(snap)
					b, errB := canon4(sent[0].Payload)
					if errA == nil && errB == nil && a != b {
						res.Viol = core.Violate("C13/v4/sent-differs-from-response-returned-last", "chain %v: the last handler returned (as it was when it returned, options in code order)\n  %s\nwhat was sent is\n  %s", c.L4, a, b)
						return
					}
				}
			}
			if len(ids4) >= 2 {
				interesting = interesting || stopsEarlyOrReplaces(c.L4, ids4)
			}
		}
		if c.Has6 {
			logMu.Lock()
			invLog = nil
			lastRet = map[uint64][]byte{}
			logMu.Unlock()
			m := gen.Msg6Spec{Type: gen.M6Solicit, Xid: 0x130006, Client: 0}
			for r := 0; r < c.Relay6; r++ {
				m.Relays = append(m.Relays, gen.Relay6Spec{Type: gen.M6RelayForw, Hop: uint8(c.Relay6 - 1 - r), Link: "2001:db8:ffff::1", Peer: "fe80::1", IfaceID: "6966" + fmt.Sprintf("%02x", r)})
			}
			reqB6 := m.Bytes()
			sent, pan := feed6(server.NewCapture6(h6, nil), append([]byte(nil), reqB6...), &ipv6.ControlMessage{IfIndex: 1}, &net.UDPAddr{IP: net.ParseIP("2001:db8::9"), Port: 546})
			if pan != nil {
				res.Viol = core.Violate("C13/panic", "HandleMsg6 panicked: %v", pan)
				return
			}
			wantLog, final, wantSent := expectRun(c.L6, ids6, 6)
			if v := cmpLog(wantLog, 0x130006, origSum(6, reqB6)); v != nil {
				res.Viol = v
				return
			}
			if wantSent != (len(sent) == 1) {
				res.Viol = core.Violate("C13/v6/sent-mismatch", "chain %v: %d datagrams sent, expected sent=%v", c.L6, len(sent), wantSent)
				return
			}
			if wantSent {
				rep, err := dhcpv6.FromBytes(sent[0].Payload)
				if err == nil && c.Relay6 > 0 {
					depth := 0
					for cur := rep; cur != nil && cur.IsRelay(); depth++ {
						inner, ierr := cur.(*dhcpv6.RelayMessage).GetInnerMessage()
						_ = inner
						if ierr != nil {
							break
						}
						next := cur.(*dhcpv6.RelayMessage).Options.RelayMessage()
						cur = next
					}
					if depth != c.Relay6 {
						res.Viol = core.Violate("C13/v6/wrong-response-sent", "chain %v: a request relayed %d times was answered inside %d relay layers", c.L6, c.Relay6, depth)
						return
					}
					var im *dhcpv6.Message
					im, err = rep.GetInnerMessage()
					if err == nil {
						rep = im
					}
				}
				if err != nil || markers6(rep) != final {
					res.Viol = core.Violate("C13/v6/wrong-response-sent", "chain %v: the reply carries other markers than the response returned last (%q, err %v)", c.L6, final, err)
					return
				}
				if snap, ok := returnedLast(6, 0x130006); ok && len(ids6) > 0 {
					a, errA := canon6(snap)
					b, errB := canon6(rep.ToBytes())
					if errA == nil && errB == nil && a != b {
						res.Viol = core.Violate("C13/v6/sent-differs-from-response-returned-last", "chain %v (relayed %d times): the last handler returned (as it was when it returned, options sorted)\n  %s\nthe message that was sent is\n  %s", c.L6, c.Relay6, a, b)
						return
					}
				}
			}
			if len(ids6) >= 2 {
				interesting = interesting || stopsEarlyOrReplaces(c.L6, ids6)
			}
		}
	}
	res.NonTrivial = interesting
	if interesting {
		res.Classes = append(res.Classes, "stop-before-end-or-replace")
	}
	return
}

// lastRet: per protocol and request transaction id, the wire form of what the handler invoked
// last returned, taken at the moment it returned (nil response: no entry value)
var lastRet = map[uint64][]byte{}

// setupCalls counts the calls of the synthetic setup functions per "<protocol>/<entry id>"
var setupCalls = map[string]int{}

func returnedLast(proto int, xid uint32) ([]byte, bool) {
	logMu.Lock()
	defer logMu.Unlock()
	b, ok := lastRet[uint64(proto)<<32|uint64(xid)]
	return b, ok && b != nil
}

// canon4 is a DHCPv4 message with its options in code order (what the codec writes)
func canon4(b []byte) (string, error) {
	m, err := dhcpv4.FromBytes(b)
	if err != nil {
		return "", err
	}
	return hex.EncodeToString(m.ToBytes()), nil
}

// canon6 is a DHCPv6 message with its options sorted: their order carries no meaning
func canon6(b []byte) (string, error) {
	d, err := dhcpv6.FromBytes(b)
	if err != nil {
		return "", err
	}
	m, ok := d.(*dhcpv6.Message)
	if !ok {
		return "relay:" + hex.EncodeToString(b), nil
	}
	var opts []string
	for _, o := range m.Options.Options {
		opts = append(opts, fmt.Sprintf("%d=%x", o.Code(), o.ToBytes()))
	}
	sort.Strings(opts)
	return fmt.Sprintf("type %d xid %x options %v", m.MessageType, m.TransactionID, opts), nil
}

func markers4safe(r *dhcpv4.DHCPv4) string {
	if r == nil {
		return "<unparseable>"
	}
	return markers4(r)
}

func stopsEarlyOrReplaces(l []OEntry, ids []int) bool {
	for k, i := range ids {
		if strings.HasPrefix(l[i].Beh, "replace") {
			return true
		}
		if (strings.HasPrefix(l[i].Beh, "stop")) && k < len(ids)-1 {
			return true
		}
	}
	return false
}

func cmpLog(want []invocation, xid uint32, reqSum uint64) *core.Violation {
	logMu.Lock()
	var got []invocation
	for _, e := range invLog {
		// stragglers of the start-up probes of TestC13Start (their own transaction id ranges) are not
		// part of the exchange being judged
		if (e.ReqXid >= 0x5b0000 && e.ReqXid <= 0x5bffff) || (e.ReqXid >= 0x5b400000 && e.ReqXid <= 0x5b40ffff) {
			continue
		}
		got = append(got, e)
	}
	logMu.Unlock()
	if len(got) != len(want) {
		return core.Violate("C13/invocations", "handlers invoked: %v, expected: %v", got, want)
	}
	for i := range want {
		if got[i].ID != want[i].ID || got[i].Proto != want[i].Proto {
			return core.Violate("C13/invocation-order", "invocation #%d is plugin %s, expected %s (all: %v)", i, got[i].ID, want[i].ID, got)
		}
		if got[i].Markers != want[i].Markers {
			return core.Violate("C13/response-not-threaded", "plugin %s received a response carrying markers %q, its predecessor returned %q", got[i].ID, got[i].Markers, want[i].Markers)
		}
		if got[i].ReqXid != xid {
			return core.Violate("C13/request-not-original", "plugin %s received a request with transaction id %#x, the original is %#x", got[i].ID, got[i].ReqXid, xid)
		}
		if reqSum != 0 && got[i].ReqSum != reqSum {
			return core.Violate("C13/request-not-original", "plugin %s (invocation #%d) received a request that is not the datagram as parsed (all layers, all options): its serialisation differs from that of the original request", got[i].ID, i)
		}
	}
	return nil
}
