//go:build verif

package srv

import (
	"bytes"
	"encoding/hex"
	"fmt"
	"net"
	"runtime"
	"strings"
	"sync"
	"sync/atomic"
	"time"

	"github.com/coredhcp/coredhcp/handler"
	"github.com/coredhcp/coredhcp/server"
	"github.com/insomniacslk/dhcp/dhcpv4"
	"github.com/insomniacslk/dhcp/dhcpv6"
	"golang.org/x/net/ipv4"
	"golang.org/x/net/ipv6"
	"pgregory.net/rapid"
	"verif/harness/core"
	"verif/harness/gen"
)

// Dgram is one datagram of a history
type Dgram struct {
	Hex string `json:"hex"`
	Src string `json:"src,omitempty"` // v6 source address
	Mut bool   `json:"mut,omitempty"`
}

// HCase is a chain of validly configured built-in plugins and a history of datagrams
type HCase struct {
	V6      bool         `json:"v6,omitempty"`
	Plugins []PluginSpec `json:"plugins"`
	Bound   bool         `json:"bound,omitempty"`
	History []Dgram      `json:"history"`
	// NilStop arms the C13 assertion "a built-in handler returns a nil response only together with stop"
	NilStop bool `json:"nilstop,omitempty"`
	// Verify arms the C11 (DHCPv4) / C12 (DHCPv6) oracle on every datagram of the history instead of C01's:
	// replies must match their request under stateful chains too (exhausted ranges and pools, static leases)
	Verify bool `json:"verify,omitempty"`
	// Check14 arms the C14 oracle instead: the chain starts with server_id, and every reply that goes out,
	// whatever the other plugins did to it, must carry this server's identifier (siaddr and option 54 / Server-ID)
	Check14 bool `json:"check14,omitempty"`
	// Burst: after the history, its datagrams are handled again all at once, each in its own
	// goroutine as Serve does, Burst copies of each (every copy made to come from another client
	// where the datagram is well-formed enough to say who the client is): C01 quantifies over
	// histories and the server's handlers run concurrently
	Burst int `json:"burst,omitempty"`
}

// GenHBurst draws histories under chains with a lease plugin, followed by a burst
func GenHBurst(t *rapid.T) HCase {
	c := genH(false, false, -1)(t)
	name, args := "range", chainArgs4["range"][2]
	if c.V6 {
		name, args = "prefix", chainArgs6["prefix"][0]
	}
	has := false
	for i := range c.Plugins {
		if c.Plugins[i].Name == name {
			has = true
		}
	}
	if !has && rapid.IntRange(0, 3).Draw(t, "force-stateful") > 0 {
		pos := rapid.IntRange(0, len(c.Plugins)).Draw(t, "stateful-pos")
		c.Plugins = append(c.Plugins[:pos], append([]PluginSpec{{Name: name, Args: args}}, c.Plugins[pos:]...)...)
	}
	c.Burst = rapid.IntRange(2, 6).Draw(t, "burst")
	if rapid.Bool().Draw(t, "autorefresh") {
		// the static lease file is watched, and rewritten while the burst is handled
		for i := range c.Plugins {
			if c.Plugins[i].Name == "file" && len(c.Plugins[i].Args) == 1 {
				c.Plugins[i].Args = append(append([]string(nil), c.Plugins[i].Args...), "autorefresh")
			}
		}
	}
	return c
}

// otherClient returns a copy of the datagram that comes from client k, if the datagram is
// well-formed enough to locate the client's identity (DHCPv4: chaddr; DHCPv6: the Client
// Identifier of an unrelayed message); otherwise the datagram itself
func otherClient(b []byte, v6 bool, k int) []byte {
	c := append([]byte(nil), b...)
	if !v6 {
		if len(c) >= 240 && c[0] == 1 && c[2] >= 2 && c[2] <= 16 {
			c[28+int(c[2])-1] ^= byte(k)
			c[28+int(c[2])-2] ^= byte(k >> 8)
		}
		return c
	}
	if len(c) < 8 || c[0] == gen.M6RelayForw || c[0] == gen.M6RelayRepl {
		return c
	}
	for off := 4; off+4 <= len(c); {
		code, l := int(c[off])<<8|int(c[off+1]), int(c[off+2])<<8|int(c[off+3])
		if off+4+l > len(c) {
			break
		}
		if code == gen.O6ClientID && l >= 4 {
			c[off+4+l-1] ^= byte(k)
			c[off+4+l-2] ^= byte(k >> 8)
			break
		}
		off += 4 + l
	}
	return c
}

func genChain(t *rapid.T, v6 bool) []PluginSpec {
	order, args := chainOrder4, chainArgs4
	if v6 {
		order, args = chainOrder6, chainArgs6
	}
	var names []string
	if rapid.IntRange(0, 2).Draw(t, "canonical-order") == 0 {
		// the order of the example configuration, any subset
		for _, n := range order {
			if rapid.IntRange(0, 2).Draw(t, "include") > 0 {
				names = append(names, n)
			}
		}
	} else {
		perm := rapid.Permutation(order).Draw(t, "chain-order")
		names = perm[:rapid.IntRange(0, len(perm)).Draw(t, "chain-len")]
	}
	var out []PluginSpec
	for _, n := range names {
		v := args[n]
		out = append(out, PluginSpec{Name: n, Args: v[rapid.IntRange(0, len(v)-1).Draw(t, "chain-args")]})
	}
	return out
}

// GenH draws a case
func GenH(nilStop bool) func(t *rapid.T) HCase { return genH(nilStop, false, -1) }

// GenH14 draws histories whose chain starts with server_id
func GenH14(t *rapid.T) HCase {
	c := genH(false, false, -1)(t)
	c.Check14 = true
	var rest []PluginSpec
	for _, p := range c.Plugins {
		if p.Name != "server_id" {
			rest = append(rest, p)
		}
	}
	first := PluginSpec{Name: "server_id", Args: chainArgs4["server_id"][0]}
	if c.V6 {
		first.Args = chainArgs6["server_id"][0]
	}
	c.Plugins = append([]PluginSpec{first}, rest...)
	if c.V6 && rapid.Bool().Draw(t, "one-block-pool") {
		// a pool of a single block: every client after the first meets the "nothing left" paths
		has := false
		for i := range c.Plugins {
			if c.Plugins[i].Name == "prefix" {
				c.Plugins[i].Args, has = chainArgs6["prefix"][3], true
			}
		}
		if !has {
			c.Plugins = append(c.Plugins, PluginSpec{Name: "prefix", Args: chainArgs6["prefix"][3]})
		}
	}
	return c
}

// mustDiscard6 reads the whole datagram (the harness's copy, not what the server made of it) and
// says why RFC 8415 section 16 wants it discarded by a server whose identifier is gen.OwnDUID6 ("": it
// does not, or the datagram is not well-formed enough to tell)
func mustDiscard6(b []byte) string {
	d, err := dhcpv6.FromBytes(b)
	if err != nil {
		return ""
	}
	inner, err := d.GetInnerMessage()
	if err != nil {
		return ""
	}
	sids := inner.GetOption(dhcpv6.OptionServerID)
	if len(sids) > 1 {
		return "" // not defined
	}
	present := len(sids) == 1
	mt := inner.MessageType
	switch {
	case present && (mt == dhcpv6.MessageTypeSolicit || mt == dhcpv6.MessageTypeConfirm || mt == dhcpv6.MessageTypeRebind):
		return fmt.Sprintf("a %s carrying a Server Identifier", mt)
	case present && !bytes.Equal(sids[0].ToBytes(), gen.OwnDUID6):
		return fmt.Sprintf("a %s whose Server Identifier %x differs from this server's", mt, sids[0].ToBytes())
	case !present && (mt == dhcpv6.MessageTypeRequest || mt == dhcpv6.MessageTypeRenew || mt == dhcpv6.MessageTypeDecline || mt == dhcpv6.MessageTypeRelease):
		return fmt.Sprintf("a %s without Server Identifier", mt)
	}
	return ""
}

// verifyServerID: one outgoing reply must name this server
func verifyServerID(v6 bool, s server.Sent) *core.Violation {
	if !v6 {
		payload := s.Payload
		if s.L2 {
			f, ok := decodeFrame(s.Frame)
			if !ok {
				return nil
			}
			payload = f.payload
		}
		if len(payload) < 240 {
			return nil
		}
		own := []byte{10, 10, 10, 1}
		if !bytes.Equal(payload[20:24], own) {
			return core.Violate("C14/reply/wrong-siaddr", "reply siaddr is %v, the configured server identifier is 10.10.10.1", net.IP(payload[20:24]))
		}
		tlvs, _ := gen.Options4(payload)
		data, cnt := gen.Merged4(tlvs)
		if cnt[54] != 1 || !bytes.Equal(data[54], own) {
			return core.Violate("C14/reply/wrong-option54", "reply carries option 54 x%d = %x, the configured server identifier is 10.10.10.1", cnt[54], data[54])
		}
		return nil
	}
	b := s.Payload
	for len(b) > 0 && (b[0] == gen.M6RelayForw || b[0] == gen.M6RelayRepl) {
		l, ok := readRelay(b)
		if !ok || !l.hasInner {
			return nil
		}
		b = l.inner
	}
	if len(b) < 4 {
		return nil
	}
	tlvs, ok := gen.Options6(b[4:])
	if !ok {
		return nil
	}
	n := 0
	for _, tl := range tlvs {
		if tl.Code == gen.O6ServerID {
			n++
			if !bytes.Equal(tl.Data, gen.OwnDUID6) {
				return core.Violate("C14/reply/wrong-server-id", "reply carries server id %x, configured %x", tl.Data, gen.OwnDUID6)
			}
		}
	}
	if n != 1 {
		return core.Violate("C14/reply/server-id-count", "reply carries %d server identifiers, want exactly 1", n)
	}
	return nil
}

// GenHVerify draws histories for the C11 (proto 4) / C12 (proto 6) oracle: chains always contain the
// stateful plugins, clients are many and pools small, so exhaustion and static leases are reached
func GenHVerify(proto int) func(t *rapid.T) HCase { return genH(false, true, proto) }

func genH(nilStop, verify bool, proto int) func(t *rapid.T) HCase {
	return func(t *rapid.T) HCase {
		c := HCase{V6: rapid.Bool().Draw(t, "v6"), NilStop: nilStop, Verify: verify}
		if proto == 4 {
			c.V6 = false
		} else if proto == 6 {
			c.V6 = true
		}
		c.Plugins = genChain(t, c.V6)
		if verify && rapid.IntRange(0, 3).Draw(t, "force-stateful") > 0 {
			// make sure the lease plugin is there, with its smallest pool, so that exhaustion is reached
			name, args := "range", chainArgs4["range"][rapid.IntRange(0, 1).Draw(t, "small-range")]
			if c.V6 {
				name, args = "prefix", chainArgs6["prefix"][1]
			}
			has := false
			for i := range c.Plugins {
				if c.Plugins[i].Name == name {
					c.Plugins[i].Args, has = args, true
				}
			}
			if !has {
				pos := rapid.IntRange(0, len(c.Plugins)).Draw(t, "stateful-pos")
				c.Plugins = append(c.Plugins[:pos], append([]PluginSpec{{Name: name, Args: args}}, c.Plugins[pos:]...)...)
			}
		}
		c.Bound = rapid.Bool().Draw(t, "bound")
		max := 12
		if core.Thorough() {
			max = 24
		}
		n := rapid.IntRange(1, max).Draw(t, "history-len")
		var prev []byte
		for i := 0; i < n; i++ {
			var b []byte
			d := Dgram{}
			if c.V6 {
				m := gen.GenMsg6(t)
				b = m.Bytes()
				d.Src = rapid.SampledFrom([]string{"fe80::1", "2001:db8::99"}).Draw(t, "src")
			} else {
				b = gen.GenPkt4(t).Bytes()
			}
			switch k := rapid.IntRange(0, 9).Draw(t, "dgram-kind"); {
			case k <= 3 && prev != nil && k == 0:
				b = prev // retransmission
			case k >= 7:
				b = gen.MutateBytes(t, b, prev)
				d.Mut = true
			}
			if len(b) > 65000 {
				b = b[:65000] // a UDP datagram carries at most 65507 (IPv4) / 65527 (IPv6) bytes
			}
			prev = b
			d.Hex = hex.EncodeToString(b)
			c.History = append(c.History, d)
		}
		return c
	}
}

// watchdog runs f in its own goroutine; if it does not return in time the
// goroutine's stack tells a wedge (parked on a lock or channel) from starvation
func watchdog(f func(), limit time.Duration) (done bool, wedged bool, stack string) {
	ch := make(chan struct{})
	var gid atomic.Int64
	go func() {
		defer close(ch)
		gid.Store(goid())
		f()
	}()
	select {
	case <-ch:
		return true, false, ""
	case <-time.After(limit):
	}
	buf := make([]byte, 1<<20)
	buf = buf[:runtime.Stack(buf, true)]
	want := fmt.Sprintf("goroutine %d [", gid.Load())
	for _, g := range strings.Split(string(buf), "\n\n") {
		if strings.HasPrefix(g, want) {
			head := g[:strings.Index(g, "\n")]
			if strings.Contains(head, "semacquire") || strings.Contains(head, "sync.Mutex.Lock") || strings.Contains(head, "chan receive") || strings.Contains(head, "chan send") || strings.Contains(head, "select") || strings.Contains(head, "sync.RWMutex") || strings.Contains(head, "sync.Cond") {
				return false, true, g
			}
			return false, false, g
		}
	}
	return false, false, ""
}

func goid() int64 {
	var buf [64]byte
	s := string(buf[:runtime.Stack(buf[:], false)])
	s = strings.TrimPrefix(s, "goroutine ")
	if i := strings.IndexByte(s, ' '); i > 0 {
		s = s[:i]
	}
	var n int64
	fmt.Sscanf(s, "%d", &n)
	return n
}

// ExecH runs one history through the server
func ExecH(c HCase) (res core.Result) {
	prop := "C01"
	if c.NilStop {
		prop = "C13"
	}
	needDB := false
	for _, p := range c.Plugins {
		if p.Name == "range" {
			needDB = true
		}
	}
	if needDB && !fdBudgetLeft() {
		res.Skipped = "fd-limit"
		return
	}
	ci, err := buildChain(c.V6, c.Plugins)
	if err != nil {
		if strings.Contains(err.Error(), "watcher") || strings.Contains(err.Error(), "too many open files") || strings.Contains(err.Error(), "inotify") {
			res.Skipped = "inotify-limit"
			return
		}
		res.Viol = core.Violate(prop+"/harness-chain-setup", "chain of valid plugins rejected: %v", err)
		return
	}
	defer ci.cleanup()
	var reached atomic.Int64
	answered := 0
	var nilNoStop atomic.Value
	h4 := []handler.Handler4{func(req, resp *dhcpv4.DHCPv4) (*dhcpv4.DHCPv4, bool) { reached.Add(1); return resp, false }}
	for i, h := range ci.h4 {
		h, i := h, i
		h4 = append(h4, func(req, resp *dhcpv4.DHCPv4) (*dhcpv4.DHCPv4, bool) {
			r, stop := h(req, resp)
			if r == nil && !stop {
				nilNoStop.Store(fmt.Sprintf("DHCPv4 handler #%d of chain %v", i, c.Plugins))
				return r, true // keep the server from dereferencing nil: the finding is recorded
			}
			return r, stop
		})
	}
	h6 := []handler.Handler6{func(req, resp dhcpv6.DHCPv6) (dhcpv6.DHCPv6, bool) { reached.Add(1); return resp, false }}
	for i, h := range ci.h6 {
		h, i := h, i
		h6 = append(h6, func(req, resp dhcpv6.DHCPv6) (dhcpv6.DHCPv6, bool) {
			r, stop := h(req, resp)
			if r == nil && !stop {
				nilNoStop.Store(fmt.Sprintf("DHCPv6 handler #%d of chain %v", i, c.Plugins))
				return r, true
			}
			return r, stop
		})
	}
	if !c.NilStop {
		// C01 runs the chain exactly as configured (plus the counting handler in front)
		h4 = append(h4[:1], ci.h4...)
		h6 = append(h6[:1], ci.h6...)
	}
	l2, _ := ifaces()
	var bound *net.Interface
	if c.Bound {
		bound = l2
	}
	recv := 1
	if l2 != nil {
		recv = l2.Index
	}
	cap4 := server.NewCapture4(h4, bound)
	cap6 := server.NewCapture6(h6, bound)
	feed := func(d Dgram, idx int) *core.Violation {
		b, _ := hex.DecodeString(d.Hex)
		var sent []server.Sent
		var pan interface{}
		var stack string
		done, wedged, gstack := watchdog(func() {
			defer func() {
				if r := recover(); r != nil {
					core.HarnessPanic(r)
					pan = r
					buf := make([]byte, 8192)
					stack = string(buf[:runtime.Stack(buf, false)])
				}
			}()
			if c.V6 {
				src := d.Src
				if src == "" {
					src = "fe80::1"
				}
				sent = cap6.Feed(b, &ipv6.ControlMessage{IfIndex: recv}, &net.UDPAddr{IP: net.ParseIP(src), Port: 546})
			} else {
				sent = cap4.Feed(b, &ipv4.ControlMessage{IfIndex: recv}, &net.UDPAddr{IP: net.IPv4(10, 10, 10, 200), Port: 68})
			}
		}, 20*time.Second)
		if !done {
			if wedged {
				return core.Violate("C01/wedged", "datagram #%d never returns: the handling goroutine is parked on a lock or channel\n%s", idx, trim(gstack, 1500))
			}
			return &core.Violation{Signature: "skip:cpu-starved"}
		}
		if pan != nil {
			return core.Violate("C01/panic", "datagram #%d (%d bytes) made the server panic: %v\n%s", idx, len(b), pan, trim(stack, 1800))
		}
		if c.Check14 {
			if c.V6 && len(sent) > 0 {
				if why := mustDiscard6(b); why != "" {
					return core.Violate("C14/hist/not-discarded", "datagram #%d (%d bytes) of a history under chain %v: %s must be discarded, %d reply(ies) went out", idx, len(b), c.Plugins, why, len(sent))
				}
			}
			for _, s := range sent {
				if v := verifyServerID(c.V6, s); v != nil {
					v.Message = fmt.Sprintf("datagram #%d of a history under chain %v: %s", idx, c.Plugins, v.Message)
					return v
				}
				answered++
			}
			return nil
		}
		if c.Verify {
			var r core.Result
			if c.V6 {
				src := d.Src
				if src == "" {
					src = "fe80::1"
				}
				bi := 0
				if bound != nil {
					bi = bound.Index
				}
				r = verifyReply6(b, sent, &net.UDPAddr{IP: net.ParseIP(src), Port: 546}, bi, recv, false)
			} else {
				r = verifyReply4(b, sent, "hist")
			}
			if r.Viol != nil {
				r.Viol.Message = fmt.Sprintf("datagram #%d of a history under chain %v: %s", idx, c.Plugins, r.Viol.Message)
				return r.Viol
			}
			for _, cl := range r.Classes {
				if cl == "answered" {
					answered++
				}
			}
			return nil
		}
		if len(sent) > 1 {
			return core.Violate("C01/more-than-one-reply", "datagram #%d: %d replies", idx, len(sent))
		}
		for _, s := range sent {
			if s.L2 {
				f, ok := decodeFrame(s.Frame)
				if !ok {
					return core.Violate("C01/reply-does-not-parse", "datagram #%d: layer-2 frame does not decode", idx)
				}
				if _, err := dhcpv4.FromBytes(f.payload); err != nil {
					return core.Violate("C01/reply-does-not-parse", "datagram #%d: reply in the layer-2 frame does not parse: %v", idx, err)
				}
				continue
			}
			if c.V6 {
				if _, err := dhcpv6.FromBytes(s.Payload); err != nil {
					return core.Violate("C01/reply-does-not-parse", "datagram #%d: reply does not parse: %v", idx, err)
				}
			} else if _, err := dhcpv4.FromBytes(s.Payload); err != nil {
				return core.Violate("C01/reply-does-not-parse", "datagram #%d: reply does not parse: %v", idx, err)
			}
		}
		return nil
	}
	mutated, relayed := false, false
	for i, d := range c.History {
		if c.Verify && c.V6 && d.Src == "" {
			c.History[i].Src = "fe80::1"
		}
		if v := feed(d, i); v != nil {
			if v.Signature == "skip:cpu-starved" {
				res.Skipped = "cpu-starved"
				return
			}
			if c.NilStop || ((c.Verify || c.Check14) && strings.HasPrefix(v.Signature, "C01/")) {
				res.Classes = []string{"abandoned:C01"}
				return
			}
			res.Viol = v
			return
		}
		if d.Mut {
			mutated = true
		}
		if len(d.Hex) >= 2 && c.V6 && (d.Hex[:2] == "0c" || d.Hex[:2] == "0d") {
			relayed = true
		}
	}
	burst := false
	if c.Burst > 0 && !c.NilStop && !c.Verify && !c.Check14 && len(c.History) > 0 {
		burst = true
		var mu sync.Mutex
		var first *core.Violation
		abort := make(chan struct{})
		var once sync.Once
		// a watched lease file is rewritten in place (same content) for as long as the burst
		// lasts, and the burst is then repeated in waves for 150 ms
		stopW := make(chan struct{})
		var wwg sync.WaitGroup
		if len(ci.refresh) > 0 {
			wwg.Add(1)
			go func() {
				defer wwg.Done()
				for {
					select {
					case <-stopW:
						return
					default:
					}
					for _, f := range ci.refresh {
						text := lease4Text
						if c.V6 {
							text = lease6Text
						}
						writeAt(f, text)
					}
					time.Sleep(50 * time.Microsecond)
				}
			}()
		}
		defer func() { close(stopW); wwg.Wait() }()
		until := time.Now().Add(150 * time.Millisecond)
		for wave := 0; ; wave++ {
			var wg sync.WaitGroup
			start := make(chan struct{})
			for r := 0; r < c.Burst; r++ {
				for i, d := range c.History {
					b, _ := hex.DecodeString(d.Hex)
					dd := Dgram{Hex: hex.EncodeToString(otherClient(b, c.V6, (wave*c.Burst+r)*len(c.History)+i+1)), Src: d.Src}
					wg.Add(1)
					go func(dd Dgram, idx int) {
						defer wg.Done()
						<-start
						if v := feed(dd, idx); v != nil && v.Signature != "skip:cpu-starved" {
							mu.Lock()
							if first == nil {
								first = v
							}
							mu.Unlock()
							once.Do(func() { close(abort) })
						}
					}(dd, i)
				}
			}
			close(start)
			finished := core.WaitTimeout(&wg, abort, 60*time.Second)
			mu.Lock()
			v := first
			mu.Unlock()
			if !finished && v == nil {
				v = core.Violate("C01/wedged", "a burst of %d x %d datagrams handled concurrently did not finish within 60 s", c.Burst, len(c.History))
			}
			if v != nil {
				what := ""
				if len(ci.refresh) > 0 {
					what = ", while the watched lease file is being rewritten"
				}
				v.Message = fmt.Sprintf("burst (%d copies of the history at once, one goroutine per datagram%s): %s", c.Burst, what, v.Message)
				res.Viol = v
				return
			}
			if len(ci.refresh) == 0 || time.Now().After(until) || wave >= 300 {
				break
			}
		}
	}
	// canary: a fresh, well-formed request must still be handled (no lock left behind)
	before := reached.Load()
	var canary Dgram
	if c.V6 {
		m := gen.Msg6Spec{Type: gen.M6Solicit, Xid: 0xca9a61, Client: 3, IANA: 1, IAPD: [][]gen.PD6Hint{{}}}
		canary = Dgram{Hex: hex.EncodeToString(m.Bytes()), Src: "2001:db8::77"}
	} else {
		p := gen.Pkt4{Op: 1, HType: 1, HLen: 6, Xid: 0xca9a61, CHAddr: "02ca9a610001", GIAddr: "10.9.9.9"}
		p.Opts = []gen.Opt4{{Code: 53, Hex: "01"}, {Code: 55, Hex: "0103066c"}}
		canary = Dgram{Hex: hex.EncodeToString(p.Bytes())}
	}
	if v := feed(canary, len(c.History)); v != nil {
		if v.Signature == "skip:cpu-starved" {
			res.Skipped = "cpu-starved"
			return
		}
		if !c.NilStop && !((c.Verify || c.Check14) && strings.HasPrefix(v.Signature, "C01/")) {
			v.Message = "canary after the history: " + v.Message
			res.Viol = v
		}
		return
	}
	if reached.Load() == before && !c.NilStop && !c.Verify && !c.Check14 {
		res.Viol = core.Violate("C01/canary-not-handled", "a well-formed request after the history never reached the plugin chain")
		return
	}
	if c.NilStop {
		if s := nilNoStop.Load(); s != nil {
			res.Viol = core.Violate("C13/builtin-nil-without-stop", "%s returned a nil response without signalling stop", s)
			return
		}
	}
	res.NonTrivial = before > 0
	if c.Verify || c.Check14 {
		res.NonTrivial = answered > 0
	}
	fam := "v4"
	if c.V6 {
		fam = "v6"
	}
	res.Classes = []string{fam, fmt.Sprintf("chain-len:%d", len(c.Plugins))}
	if mutated {
		res.Classes = append(res.Classes, "mutated")
	}
	if relayed {
		res.Classes = append(res.Classes, "relayed")
	}
	for _, p := range c.Plugins {
		if p.Name == "range" || p.Name == "prefix" || p.Name == "file" {
			res.Classes = append(res.Classes, "stateful:"+p.Name)
		}
	}
	if before > 1 {
		res.Classes = append(res.Classes, "several-reached-chain")
	}
	if burst {
		res.Classes = append(res.Classes, "burst")
		if len(ci.refresh) > 0 {
			res.Classes = append(res.Classes, "burst-with-lease-file-rewrites")
		}
	}
	return
}

func trim(s string, n int) string {
	if len(s) > n {
		return s[:n] + "..."
	}
	return s
}
