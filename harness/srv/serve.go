//go:build verif

package srv

import (
	"bytes"
	"encoding/hex"
	"fmt"
	"net"
	"sync"
	"time"

	"github.com/coredhcp/coredhcp/handler"
	"github.com/coredhcp/coredhcp/server"
	"github.com/insomniacslk/dhcp/dhcpv4"
	"github.com/insomniacslk/dhcp/dhcpv6"
	"pgregory.net/rapid"
	"verif/harness/core"
	"verif/harness/gen"
	"verif/harness/plug"
)

// SCase drives the real Serve loops (ReadFrom into a pooled buffer, one
// goroutine per datagram) over loopback sockets: Senders client sockets each
// send Burst datagrams back to back
type SCase struct {
	V6      bool `json:"v6,omitempty"`
	Senders int  `json:"senders"`
	Burst   int  `json:"burst"`
	// Pad: extra option bytes, so that datagrams differ in length (a recycled buffer
	// that was resliced shorter must be resliced back)
	Pad []int `json:"pad"`
	// Mode: "" (C16: every assertion) | "C12" (only: a DHCPv6 reply goes back to the source
	// address and port of its own request) | "C11" (DHCPv4: every reply answers exactly one
	// request and carries its transaction id and hardware address)
	Mode string `json:"mode,omitempty"`
	// Runts: datagrams too short to be parsed, sent before the bursts (a receive path that
	// treats them specially must still treat what follows normally)
	Runts int `json:"runts,omitempty"`
}

// GenS01 draws cases for C01: datagrams too short to parse (incl. empty ones) first, then bursts;
// afterwards every request must still get its answer
func GenS01(t *rapid.T) SCase {
	c := GenS(t)
	c.Mode = "C01"
	c.Runts = rapid.IntRange(1, 5).Draw(t, "runts01")
	return c
}

// GenS11 draws DHCPv4 cases for C11
func GenS11(t *rapid.T) SCase {
	c := GenS(t)
	c.V6, c.Mode = false, "C11"
	return c
}

// GenS12 draws DHCPv6 cases for C12
func GenS12(t *rapid.T) SCase {
	c := GenS(t)
	c.V6, c.Mode = true, "C12"
	return c
}

// GenS draws a case
func GenS(t *rapid.T) SCase {
	c := SCase{V6: rapid.Bool().Draw(t, "v6"), Senders: rapid.IntRange(2, 8).Draw(t, "senders"), Burst: rapid.IntRange(2, 12).Draw(t, "burst")}
	for i := 0; i < c.Senders*c.Burst; i++ {
		c.Pad = append(c.Pad, rapid.SampledFrom([]int{0, 0, 1, 7, 64, 200, 600, 1200}).Draw(t, "pad"))
	}
	if rapid.Bool().Draw(t, "runts?") {
		c.Runts = rapid.IntRange(1, 3).Draw(t, "runts")
	}
	return c
}

// ExecS sends the bursts and checks that every recorded reply belongs to exactly one request
func ExecS(c SCase) (res core.Result) {
	plug.Reset()
	if c.Mode != "" {
		defer func() {
			if res.Viol != nil && len(res.Viol.Signature) >= 3 && res.Viol.Signature[:3] != c.Mode {
				res = core.Result{Classes: []string{"abandoned:" + res.Viol.Signature[:3]}}
			}
		}()
	}
	xt := "C16/cross-talk"
	if c.Mode == "C11" {
		xt = "C11/serve-loop"
	}
	type want struct {
		id  []byte // chaddr / client duid
		pad int
		src *net.UDPAddr
	}
	reqs := map[uint32]want{}
	wires := map[uint32][]byte{}
	var mu sync.Mutex
	var sentOut func() []server.Sent
	var addr *net.UDPAddr
	var closeFn func()
	slow4 := func(req, resp *dhcpv4.DHCPv4) (*dhcpv4.DHCPv4, bool) {
		time.Sleep(50 * time.Microsecond)
		return resp, false
	}
	slow6 := func(req, resp dhcpv6.DHCPv6) (dhcpv6.DHCPv6, bool) {
		time.Sleep(50 * time.Microsecond)
		return resp, false
	}
	if c.V6 {
		h, err := plug.ByName("server_id").Setup6("LL", "00:de:ad:be:ef:00")
		if err != nil {
			res.Skipped = "bad-case"
			return
		}
		s, err := server.NewServing6([]handler.Handler6{slow6, h})
		if err != nil {
			res.Skipped = "no-loopback-socket"
			return
		}
		sentOut, addr, closeFn = s.Sent, s.Addr, s.Close
	} else {
		h, err := plug.ByName("server_id").Setup4("10.10.10.1")
		if err != nil {
			res.Skipped = "bad-case"
			return
		}
		s, err := server.NewServing4([]handler.Handler4{slow4, h})
		if err != nil {
			res.Skipped = "no-loopback-socket"
			return
		}
		sentOut, addr, closeFn = s.Sent, s.Addr, s.Close
	}
	defer closeFn()
	if c.Runts > 0 {
		network := "udp4"
		if c.V6 {
			network = "udp6"
		}
		if conn, err := net.DialUDP(network, nil, addr); err == nil {
			for i := 0; i < c.Runts; i++ {
				conn.Write(bytes.Repeat([]byte{1}, []int{0, 1, 3, 100, 239}[i%5]))
			}
			conn.Close()
			time.Sleep(5 * time.Millisecond)
		}
	}
	var wg sync.WaitGroup
	resent := map[uint32]bool{}
	total := 0
	for sdr := 0; sdr < c.Senders; sdr++ {
		network := "udp4"
		if c.V6 {
			network = "udp6"
		}
		conn, err := net.DialUDP(network, nil, addr)
		if err != nil {
			res.Skipped = "no-loopback-socket"
			return
		}
		defer conn.Close()
		var dgrams [][]byte
		for j := 0; j < c.Burst; j++ {
			k := sdr*c.Burst + j
			xid := uint32(0x510000 + k)
			pad := c.Pad[k%len(c.Pad)]
			id := []byte{0x02, 0x5e, byte(sdr), byte(j), byte(k >> 8), byte(k)}
			if c.V6 {
				duid := gen.DUIDLL(1, id)
				opts := [][]byte{gen.Opt6(gen.O6ClientID, duid), gen.Opt6(gen.O6ElapsedTime, []byte{0, 0})}
				if pad > 0 {
					opts = append(opts, gen.Opt6(65002, bytes.Repeat([]byte{byte(k)}, pad)))
				}
				dgrams = append(dgrams, gen.Msg6(gen.M6Solicit, xid, opts...))
				reqs[xid] = want{duid, pad, conn.LocalAddr().(*net.UDPAddr)}
				wires[xid] = dgrams[len(dgrams)-1]
			} else {
				p := gen.Pkt4{Op: 1, HType: 1, HLen: 6, Xid: xid, CHAddr: hex.EncodeToString(id), GIAddr: "127.0.0.1"}
				p.Opts = []gen.Opt4{{Code: 53, Hex: "01"}, {Code: 61, Hex: "01" + hex.EncodeToString(id)}}
				for rest := pad; rest > 0; rest -= 250 {
					n := rest
					if n > 250 {
						n = 250
					}
					p.Opts = append(p.Opts, gen.Opt4{Code: byte(200 + len(p.Opts)), Hex: hex.EncodeToString(bytes.Repeat([]byte{byte(k)}, n))})
				}
				dgrams = append(dgrams, p.Bytes())
				reqs[xid] = want{id, pad, conn.LocalAddr().(*net.UDPAddr)}
				wires[xid] = dgrams[len(dgrams)-1]
			}
			total++
		}
		wg.Add(1)
		go func(conn *net.UDPConn, dgrams [][]byte) {
			defer wg.Done()
			for _, d := range dgrams {
				conn.Write(d)
			}
		}(conn, dgrams)
	}
	wg.Wait()
	// wait until every datagram has been answered, or 3 s (loopback may drop under pressure: completeness is not asserted)
	deadline := time.Now().Add(3 * time.Second)
	var out []server.Sent
	for {
		out = sentOut()
		if len(out) >= total || time.Now().After(deadline) {
			break
		}
		time.Sleep(2 * time.Millisecond)
	}
	// datagrams still unanswered are sent again one at a time: a one-at-a-time order answers every one of them
	if len(out) < total {
		answered := func() map[uint32]bool {
			m := map[uint32]bool{}
			for _, s := range sentOut() {
				if c.V6 && len(s.Payload) >= 4 {
					m[uint32(s.Payload[1])<<16|uint32(s.Payload[2])<<8|uint32(s.Payload[3])] = true
				} else if !c.V6 && len(s.Payload) >= 8 {
					m[uint32(s.Payload[4])<<24|uint32(s.Payload[5])<<16|uint32(s.Payload[6])<<8|uint32(s.Payload[7])] = true
				}
			}
			return m
		}
		got := answered()
		network := "udp4"
		if c.V6 {
			network = "udp6"
		}
		conn, err := net.DialUDP(network, nil, addr)
		if err == nil {
			defer conn.Close()
			for xid, d := range wires {
				for try := 0; try < 4 && !got[xid]; try++ {
					resent[xid] = true
					conn.Write(d)
					for w := 0; w < 100 && !got[xid]; w++ {
						time.Sleep(2 * time.Millisecond)
						got = answered()
					}
				}
				if !got[xid] {
					sig := "C16/serve-loop-drops-datagram"
					if c.Mode == "C01" {
						sig = "C01/serve-loop-wedged"
					}
					res.Viol = core.Violate(sig, "Serve loop: a %d-byte datagram (xid %#x) sent alone four times after a burst (and %d datagrams too short to parse before it) is never answered, although every one-at-a-time order answers it", len(d), xid, c.Runts)
					return
				}
			}
		}
		out = sentOut()
	}
	mu.Lock()
	defer mu.Unlock()
	seen := map[uint32]bool{}
	for _, s := range out {
		var xid uint32
		var id []byte
		if c.V6 {
			d, err := dhcpv6.FromBytes(s.Payload)
			if err != nil {
				res.Viol = core.Violate(xt, "Serve loop: reply does not parse: %v", err)
				return
			}
			m := d.(*dhcpv6.Message)
			xid = uint32(m.TransactionID[0])<<16 | uint32(m.TransactionID[1])<<8 | uint32(m.TransactionID[2])
			if cid := m.Options.ClientID(); cid != nil {
				id = cid.ToBytes()
			}
		} else {
			r, err := dhcpv4.FromBytes(s.Payload)
			if err != nil {
				res.Viol = core.Violate(xt, "Serve loop: reply does not parse: %v", err)
				return
			}
			xid = uint32(r.TransactionID[0])<<24 | uint32(r.TransactionID[1])<<16 | uint32(r.TransactionID[2])<<8 | uint32(r.TransactionID[3])
			id = r.ClientHWAddr
		}
		w, ok := reqs[xid]
		if !ok {
			res.Viol = core.Violate(xt, "Serve loop: a reply carries transaction id %#x, which no request had", xid)
			return
		}
		if !bytes.Equal(w.id, id) {
			res.Viol = core.Violate(xt, "Serve loop: the reply to xid %#x carries client %x, the request had %x: receive buffers were mixed up", xid, id, w.id)
			return
		}
		// a DHCPv6 reply goes back to where its request came from (the datagrams sent again one
		// at a time come from another socket: those transaction ids are not judged)
		if c.V6 && !resent[xid] {
			if s.Peer == nil || s.Peer.Port != w.src.Port || !s.Peer.IP.Equal(w.src.IP) {
				sig := "C16/cross-talk/destination"
				if c.Mode == "C12" {
					sig = "C12/reply-to-wrong-source"
				}
				res.Viol = core.Violate(sig, "Serve loop: the reply to xid %#x (sent from %v) was addressed to %v: one of %d datagrams sent back to back from %d sockets", xid, w.src, s.Peer, total, c.Senders)
				return
			}
		}
		if seen[xid] && !resent[xid] {
			res.Viol = core.Violate(xt, "Serve loop: the request with xid %#x, sent once, was answered twice (%d datagrams in the burst, %d replies)", xid, total, len(out))
			return
		}
		seen[xid] = true
	}
	res.NonTrivial = len(out) >= 2
	fam := "v4"
	if c.V6 {
		fam = "v6"
	}
	res.Classes = []string{"serve-loop:" + fam, fmt.Sprintf("answered-all:%v", len(out) == total)}
	return
}
