//go:build verif

package srv

import (
	"bytes"
	"encoding/hex"
	"fmt"
	"net"
	"sync/atomic"

	"github.com/coredhcp/coredhcp/handler"
	"github.com/coredhcp/coredhcp/server"
	"github.com/insomniacslk/dhcp/dhcpv4"
	"golang.org/x/net/ipv4"
	"pgregory.net/rapid"
	"verif/harness/core"
	"verif/harness/gen"
)

// A4Case is one row of the RFC 2131 section 4.1 addressing table
type A4Case struct {
	GIAddr    string `json:"giaddr,omitempty"`
	CIAddr    string `json:"ciaddr,omitempty"`
	Broadcast bool   `json:"broadcast,omitempty"`
	Request   bool   `json:"request,omitempty"` // REQUEST instead of DISCOVER
	// Action of the synthetic plugin: addr (set yiaddr) | zero (leave yiaddr unset) | nak
	Action string `json:"action"`
	YIAddr string `json:"yiaddr,omitempty"`
	// Listener: bound (to the 6-byte-MAC interface) | unbound (request arrives on that interface) | unbound-other (arrives on another index)
	//   | listen-zone (the listener is opened by the server's own listen4 for ListenIP%<that interface>: bound)
	//   | listen-nozone (opened by listen4 for ListenIP without a zone: unbound, the request arrives on that interface)
	Listener string `json:"listener"`
	// ListenIP: "" / 0.0.0.0 (wildcard) | own (an address of this host that is not on the loopback) | 127.0.0.1 | 255.255.255.255
	ListenIP string `json:"listenip,omitempty"`
	CHAddr   string `json:"chaddr"`
	// IfSel selects which of the interfaces with a 6-byte hardware address the listener is
	// bound to / the request arrives on
	IfSel int `json:"ifsel,omitempty"`
	// SrcPort is the UDP source port of the request (0 = 68); Opt82 adds a relay agent information option
	SrcPort int    `json:"srcport,omitempty"`
	SrcIP   string `json:"srcip,omitempty"`
	Opt82   string `json:"opt82,omitempty"` // hex
	Opt61   bool   `json:"opt61,omitempty"`
}

// A4Seq is a sequence of rows handled one after the other by the same server process: state
// left behind by one datagram (a cached interface, a reused buffer) must not leak into the next
type A4Seq struct {
	Rows []A4Case `json:"rows"`
}

// GenA4Seq draws a sequence biased to the link-level row on varying interfaces
func GenA4Seq(t *rapid.T) A4Seq {
	var s A4Seq
	n := rapid.IntRange(2, 5).Draw(t, "nrows")
	for i := 0; i < n; i++ {
		c := GenA4(t)
		if rapid.IntRange(0, 2).Draw(t, "l2row") > 0 {
			c.GIAddr, c.CIAddr, c.Broadcast = "", "", false
			if c.Action == "nak" {
				c.Action = "addr"
			}
		}
		if c.Listener == "unbound-other" && rapid.Bool().Draw(t, "existing-if") {
			c.Listener = "unbound"
		}
		c.IfSel = rapid.IntRange(0, 3).Draw(t, "ifsel")
		s.Rows = append(s.Rows, c)
	}
	return s
}

var (
	a4Sess *server.Session4
	a4Cur  *A4Case
)

// a4Action is the synthetic plugin of a row
func a4Action(c *A4Case) handler.Handler4 {
	return func(req, resp *dhcpv4.DHCPv4) (*dhcpv4.DHCPv4, bool) {
		switch c.Action {
		case "addr":
			resp.YourIPAddr = net.ParseIP(c.YIAddr).To4()
		case "nak":
			resp.UpdateOption(dhcpv4.OptMessageType(dhcpv4.MessageTypeNak))
		}
		return resp, false
	}
}

func feedSess4(s4 *server.Session4, dgram []byte, oob *ipv4.ControlMessage, peer *net.UDPAddr) (sent []server.Sent, panicked interface{}) {
	defer func() {
		if r := recover(); r != nil {
			core.HarnessPanic(r)
			panicked = r
		}
	}()
	return s4.Feed(dgram, oob, peer), nil
}

// ExecA4Seq runs the rows in order
func ExecA4Seq(s A4Seq) (res core.Result) {
	a4Cur = new(A4Case)
	a4Sess = server.NewSession4([]handler.Handler4{a4Action(a4Cur)}, nil)
	defer func() { a4Sess, a4Cur = nil, nil }()
	seen := map[int]bool{}
	for i, c := range s.Rows {
		r := ExecA4(c)
		if r.Skipped != "" {
			return r
		}
		if r.Viol != nil {
			r.Viol.Message = fmt.Sprintf("row %d of a sequence of %d: %s", i, len(s.Rows), r.Viol.Message)
			return r
		}
		res.Classes = append(res.Classes, r.Classes...)
		if c.Listener != "unbound-other" {
			seen[c.IfSel%max(1, len(l2List()))] = true
		}
	}
	res.NonTrivial = len(seen) >= 2
	if res.NonTrivial {
		res.Classes = append(res.Classes, "seq:several-interfaces")
	}
	return
}

var listenPort atomic.Int64

// ownIPv4 is an IPv4 address of this host that is not on the loopback interface
func ownIPv4() net.IP {
	ifs, _ := net.Interfaces()
	for _, i := range ifs {
		if i.Flags&net.FlagLoopback != 0 || i.Flags&net.FlagUp == 0 {
			continue
		}
		addrs, _ := i.Addrs()
		for _, a := range addrs {
			if n, ok := a.(*net.IPNet); ok && n.IP.To4() != nil {
				return n.IP.To4()
			}
		}
	}
	return nil
}

var addrKinds = []string{"", "192.0.2.7", "10.10.10.200", "169.254.7.9", "255.255.255.255"}

// GenA4 draws one row
func GenA4(t *rapid.T) A4Case {
	c := A4Case{
		GIAddr:    rapid.SampledFrom(append([]string{"", "", "", ""}, addrKinds...)).Draw(t, "giaddr"),
		CIAddr:    rapid.SampledFrom(append([]string{"", "", ""}, addrKinds...)).Draw(t, "ciaddr"),
		Broadcast: rapid.Bool().Draw(t, "broadcast"),
		Request:   rapid.Bool().Draw(t, "request"),
		Action:    rapid.SampledFrom([]string{"addr", "addr", "zero", "nak"}).Draw(t, "action"),
		Listener:  rapid.SampledFrom([]string{"bound", "unbound", "unbound-other"}).Draw(t, "listener"),
	}
	if rapid.IntRange(0, 2).Draw(t, "random-addrs") == 0 {
		rnd := func(l string) string {
			return net.IPv4(byte(rapid.IntRange(1, 223).Draw(t, l+"a")), rapid.Byte().Draw(t, l+"b"), rapid.Byte().Draw(t, l+"c"), rapid.Byte().Draw(t, l+"d")).String()
		}
		if c.GIAddr != "" {
			c.GIAddr = rnd("gi")
		}
		if c.CIAddr != "" {
			c.CIAddr = rnd("ci")
		}
	}
	if rapid.IntRange(0, 9).Draw(t, "real-listen") == 0 {
		c.Listener = rapid.SampledFrom([]string{"listen-zone", "listen-nozone", "listen-nozone"}).Draw(t, "listen-kind")
		c.ListenIP = rapid.SampledFrom([]string{"", "own", "own", "127.0.0.1", "255.255.255.255"}).Draw(t, "listen-ip")
	}
	c.SrcPort = rapid.SampledFrom([]int{0, 0, 67, 68, 1024, 6767, 65535, 1}).Draw(t, "srcport")
	c.SrcIP = rapid.SampledFrom([]string{"", "10.10.10.201", "192.0.2.7", "0.0.0.0", "169.254.1.1"}).Draw(t, "srcip")
	c.Opt82 = rapid.SampledFrom([]string{"", "", "01046369726332", "0104636972630206aabbccddeeff", "13021a0a", "0103616263130204d2"}).Draw(t, "opt82")
	c.Opt61 = rapid.Bool().Draw(t, "opt61")
	c.YIAddr = net.IPv4(10, 10, 10, byte(rapid.IntRange(2, 250).Draw(t, "yi"))).String()
	// hardware addresses that are not Ethernet-sized cannot be the destination of a link-level
	// unicast: whatever is sent then must still not go to some other station
	hl := 6
	if rapid.IntRange(0, 3).Draw(t, "odd-hlen") == 0 {
		hl = rapid.SampledFrom([]int{0, 1, 5, 7, 8, 15, 16}).Draw(t, "hlen")
	}
	mac := rapid.SliceOfN(rapid.Byte(), hl, hl).Draw(t, "chaddr")
	c.CHAddr = hex.EncodeToString(mac)
	return c
}

// EnumA4 enumerates the whole table
func EnumA4() []A4Case {
	var out []A4Case
	for _, gi := range addrKinds {
		for _, ci := range addrKinds {
			for _, bc := range []bool{false, true} {
				for _, rq := range []bool{false, true} {
					for _, act := range []string{"addr", "zero", "nak"} {
						for _, lst := range []string{"bound", "unbound", "unbound-other"} {
							out = append(out, A4Case{GIAddr: gi, CIAddr: ci, Broadcast: bc, Request: rq, Action: act, YIAddr: "10.10.10.42", Listener: lst, CHAddr: "02aabbccddee"})
							if gi == "" && ci == "" && !bc && act != "nak" && lst != "unbound-other" {
								// the link-level row for hardware addresses that are not 6 bytes long
								for _, ch := range []string{"", "02", "02aabbccdd", "02aabbccddee01", "02aabbfffeccddee", "02aabbccddee0102030405060708090a"} {
									out = append(out, A4Case{Broadcast: bc, Request: rq, Action: act, YIAddr: "10.10.10.42", Listener: lst, CHAddr: ch})
								}
							}
							if lst == "unbound" && !bc {
								// the same row arriving from another source port, with relay agent information
								out = append(out, A4Case{GIAddr: gi, CIAddr: ci, Broadcast: bc, Request: rq, Action: act, YIAddr: "10.10.10.42", Listener: lst, CHAddr: "02aabbccddee", SrcPort: 6767, SrcIP: "192.0.2.7", Opt82: "01046369726332", Opt61: true})
							}
						}
					}
				}
			}
		}
	}
	return out
}

// ExecA4 checks one row
func ExecA4(c A4Case) (res core.Result) {
	_, other := ifaces()
	all := l2List()
	if len(all) == 0 {
		res.Skipped = "no-interface-with-6-byte-mac"
		return
	}
	l2 := all[c.IfSel%len(all)]
	if other != nil && other.Index == l2.Index {
		other = all[(c.IfSel+1)%len(all)]
	}
	hs := []handler.Handler4{a4Action(&c)}
	// inside a sequence the unbound rows share one listener value, as the datagrams of a running
	// server do (the session's handler acts on whatever row is current)
	useSess := a4Sess != nil && c.Listener == "unbound"
	if useSess {
		*a4Cur = c
	}
	var cap4 *server.Capture4
	recvIdx := l2.Index
	wantIf := l2.Index
	switch c.Listener {
	case "listen-zone", "listen-nozone":
		ip := net.IPv4zero
		switch c.ListenIP {
		case "own":
			if ip = ownIPv4(); ip == nil {
				res.Skipped = "no-own-ipv4-address"
				return
			}
		case "", "0.0.0.0":
		default:
			ip = net.ParseIP(c.ListenIP).To4()
		}
		zone := ""
		if c.Listener == "listen-zone" {
			zone = l2.Name
			if other != nil {
				recvIdx = other.Index
			}
		}
		var err error
		var probed, ifInfo bool
		for try := 0; try < 8; try++ {
			// a port nobody else uses right now (the server's sockets allow address reuse, so a
			// clash with another process would not show as an error)
			port := 20000 + int(listenPort.Add(1)*7919%40000)
			if tmp, e := net.ListenUDP("udp4", &net.UDPAddr{IP: net.IPv4(127, 0, 0, 1)}); e == nil {
				port = tmp.LocalAddr().(*net.UDPAddr).Port
				tmp.Close()
			}
			cap4, probed, ifInfo, err = server.NewListening4(&net.UDPAddr{IP: ip, Port: port, Zone: zone}, hs)
			if err == nil {
				break
			}
		}
		if err != nil {
			// the address cannot be listened on in this sandbox (not a property of the server)
			res.Skipped = "cannot-listen"
			return
		}
		// judged only when a datagram was actually read back from the socket
		if zone == "" && probed && !ifInfo {
			res.Viol = core.Violate("C15/unbound-listener-without-interface-information", "listen address %v (no zone): the socket does not report the interface a datagram arrived on, so a reply that must leave on it cannot", ip)
			return
		}
	case "bound":
		cap4 = server.NewCapture4(hs, l2)
		if other != nil {
			recvIdx = other.Index // a bound listener ignores where the kernel says it arrived
		}
	case "unbound":
		cap4 = server.NewCapture4(hs, nil)
	default:
		cap4 = server.NewCapture4(hs, nil)
		recvIdx = 4242 // no such interface
		wantIf = 4242
	}
	mac, _ := hex.DecodeString(c.CHAddr)
	p := gen.Pkt4{Op: 1, HType: 1, HLen: uint8(len(mac)), Xid: 0xadd4, CHAddr: c.CHAddr, GIAddr: c.GIAddr, CIAddr: c.CIAddr}
	if c.Broadcast {
		p.Flags = 0x8000
	}
	mt := "01"
	if c.Request {
		mt = "03"
	}
	p.Opts = []gen.Opt4{{Code: 53, Hex: mt}}
	if c.Opt82 != "" {
		p.Opts = append(p.Opts, gen.Opt4{Code: 82, Hex: c.Opt82})
	}
	if c.Opt61 {
		p.Opts = append(p.Opts, gen.Opt4{Code: 61, Hex: "01" + c.CHAddr})
	}
	src := &net.UDPAddr{IP: net.IPv4(10, 10, 10, 201), Port: 68}
	if c.SrcPort != 0 {
		src.Port = c.SrcPort
	}
	if c.SrcIP != "" {
		src.IP = net.ParseIP(c.SrcIP)
	}
	isNak := c.Action == "nak"
	// the statement's cascade
	var wantPeer *net.UDPAddr
	wantL2 := false
	row := ""
	switch {
	case c.GIAddr != "":
		wantPeer, row = &net.UDPAddr{IP: net.ParseIP(c.GIAddr), Port: 67}, "relay"
	case isNak:
		wantPeer, row = &net.UDPAddr{IP: net.IPv4bcast, Port: 68}, "nak-broadcast"
	case c.CIAddr != "":
		wantPeer, row = &net.UDPAddr{IP: net.ParseIP(c.CIAddr), Port: 68}, "ciaddr-unicast"
	case c.Broadcast:
		wantPeer, row = &net.UDPAddr{IP: net.IPv4bcast, Port: 68}, "flag-broadcast"
	default:
		wantL2, row = true, "l2-unicast"
	}
	res.Classes = []string{"row:" + row, "listener:" + c.Listener}
	res.NonTrivial = true
	if wantL2 && c.Listener == "unbound-other" {
		// the frame would have to leave on an interface that does not exist: nothing can be asserted but "no crash"
		res.Classes = append(res.Classes, "l2-on-missing-interface")
	}
	var sent []server.Sent
	var pan interface{}
	if useSess {
		res.Classes = append(res.Classes, "same-listener-as-previous-rows")
		sent, pan = feedSess4(a4Sess, p.Bytes(), &ipv4.ControlMessage{IfIndex: recvIdx}, src)
	} else {
		sent, pan = feed4(cap4, p.Bytes(), &ipv4.ControlMessage{IfIndex: recvIdx}, src)
	}
	if pan != nil {
		res.Viol = core.Violate("C15/panic", "HandleMsg4 panicked: %v", pan)
		return
	}
	if wantL2 && c.Listener == "unbound-other" {
		if len(sent) != 0 {
			res.Viol = core.Violate("C15/l2-on-missing-interface", "a frame was sent although interface %d does not exist", recvIdx)
		}
		return
	}
	if wantL2 && len(mac) != 6 {
		// an Ethernet frame cannot be addressed to this client: sending nothing is all that can
		// be done; anything that is sent is judged below (a frame to some other station is wrong)
		res.Classes = append(res.Classes, "l2-hlen-not-6")
		if len(sent) == 0 {
			return
		}
	}
	if len(sent) != 1 {
		res.Viol = core.Violate("C15/reply-count", "row %s: %d datagrams sent, want 1", row, len(sent))
		return
	}
	s := sent[0]
	if wantL2 {
		if !s.L2 {
			res.Viol = core.Violate("C15/not-link-level-unicast", "row l2-unicast (giaddr 0, not NAK, ciaddr 0, no broadcast flag): reply sent by UDP to %v instead of a link-level unicast", s.Peer)
			return
		}
		f, ok := decodeFrame(s.Frame)
		if !ok {
			res.Viol = core.Violate("C15/l2-frame-malformed", "frame does not decode")
			return
		}
		if !bytes.Equal(f.dstMAC, mac) {
			res.Viol = core.Violate("C15/l2-wrong-destination-mac", "frame sent to %v, client hardware address is %v", f.dstMAC, net.HardwareAddr(mac))
			return
		}
		wantIP := net.IPv4zero
		if c.Action == "addr" {
			wantIP = net.ParseIP(c.YIAddr)
		}
		if !f.dstIP.Equal(wantIP) {
			res.Viol = core.Violate("C15/l2-wrong-destination-ip", "frame's IPv4 destination is %v, the offered address is %v", f.dstIP, wantIP)
			return
		}
		if f.sport != 67 || f.dport != 68 {
			res.Viol = core.Violate("C15/l2-wrong-ports", "frame's UDP ports are %d -> %d, want 67 -> 68", f.sport, f.dport)
			return
		}
		if s.L2IfIndex != wantIf {
			res.Viol = core.Violate("C15/wrong-interface", "frame leaves on interface %d, want %d (listener %s)", s.L2IfIndex, wantIf, c.Listener)
			return
		}
		rep, err := dhcpv4.FromBytes(f.payload)
		if err != nil || rep.TransactionID != [4]byte{0, 0, 0xad, 0xd4} || !rep.YourIPAddr.Equal(wantIP) || rep.OpCode != dhcpv4.OpcodeBootReply {
			res.Viol = core.Violate("C15/l2-wrong-payload", "frame's DHCP payload is not the reply (err %v)", err)
			return
		}
		return
	}
	if s.L2 {
		res.Viol = core.Violate("C15/unexpected-link-level-unicast", "row %s: reply sent as link-level frame, want UDP to %v", row, wantPeer)
		return
	}
	if s.Peer == nil || !s.Peer.IP.Equal(wantPeer.IP) || s.Peer.Port != wantPeer.Port {
		res.Viol = core.Violate("C15/wrong-destination/"+row, "row %s (giaddr %q ciaddr %q broadcast %v nak %v): reply sent to %v, want %v", row, c.GIAddr, c.CIAddr, c.Broadcast, isNak, s.Peer, wantPeer)
		return
	}
	pinned := wantPeer.IP.Equal(net.IPv4bcast) || wantPeer.IP.IsLinkLocalUnicast()
	if pinned {
		if !s.HasCM || s.IfIndex != wantIf {
			res.Viol = core.Violate("C15/wrong-interface", "row %s to %v: must leave on interface %d (listener %s); control message present=%v ifindex=%d", row, wantPeer.IP, wantIf, c.Listener, s.HasCM, s.IfIndex)
			return
		}
	} else if s.HasCM && s.IfIndex != 0 {
		res.Viol = core.Violate("C15/routable-reply-pinned", "row %s to routable %v: reply is pinned to interface %d", row, wantPeer.IP, s.IfIndex)
		return
	}
	rep, err := dhcpv4.FromBytes(s.Payload)
	if err != nil || rep.TransactionID != [4]byte{0, 0, 0xad, 0xd4} {
		res.Viol = core.Violate("C15/wrong-payload", "payload is not the reply (err %v)", err)
		return
	}
	return
}
