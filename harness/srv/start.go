//go:build verif

package srv

import (
	"fmt"
	"net"
	"os"
	"strconv"
	"sync"
	"sync/atomic"
	"time"

	"github.com/coredhcp/coredhcp/config"
	"github.com/coredhcp/coredhcp/server"
	"github.com/insomniacslk/dhcp/dhcpv4"
	"github.com/insomniacslk/dhcp/dhcpv6"
	"pgregory.net/rapid"
	"verif/harness/core"
	"verif/harness/gen"
)

// StCase starts the real server (server.Start: LoadPlugins, one listener per
// listen address, Serve loops, real sockets on loopback) with synthetic plugins
// and sends one request to every listener
type StCase struct {
	O OCase `json:"o"`
	// N4, N6: number of listen addresses per protocol (1..3)
	N4 int `json:"n4"`
	N6 int `json:"n6"`
	// Slow: the plugins' setup functions take 15 ms each, and requests are sent to the first listen
	// address of each protocol every millisecond from before Start is called until it returns
	Slow bool `json:"slow,omitempty"`
}

// GenSt draws a case whose plugin lists load (start-up errors are C13's TestC13)
func GenSt(t *rapid.T) StCase {
	c := StCase{O: GenO(t), N4: rapid.IntRange(1, 3).Draw(t, "n4"), N6: rapid.IntRange(1, 3).Draw(t, "n6")}
	c.O.ViaYAML = false
	c.Slow = rapid.IntRange(0, 3).Draw(t, "slow-setup") == 0
	fix := func(l []OEntry) {
		for i := range l {
			if l[i].Beh == "setupfail" || l[i].Beh == "nilhandler" {
				l[i].Beh = "pass"
			}
			known := false
			for _, n := range synNames {
				if n == l[i].Name {
					known = true
				}
			}
			if !known {
				l[i].Name = synNames[0]
			}
		}
	}
	fix(c.O.L4)
	fix(c.O.L6)
	return c
}

var startMu sync.Mutex // one real server at a time in this process (the relay port 67 is shared)

// portSeq counts the ports this process has handed out
var portSeq atomic.Int64

// freePort picks a UDP port for a server the case is about to start. The server's sockets allow
// port reuse, so two harness processes that were given the same port by the kernel would both
// bind it and share its datagrams - and a reply of the other process's server would be taken for
// one of ours. Each process therefore draws from a range of its own (by process id) and only
// takes ports that nobody holds at that moment.
func freePort(network, host string) int {
	base := 10000 + (os.Getpid()%500)*100
	for try := 0; try < 100; try++ {
		port := base + int(portSeq.Add(1)%100)
		a, err := net.ResolveUDPAddr(network, net.JoinHostPort(host, strconv.Itoa(port)))
		if err != nil {
			return 0
		}
		c, err := net.ListenUDP(network, a)
		if err != nil {
			continue
		}
		c.Close()
		return port
	}
	return 0
}

// ExecSt runs one case
func ExecSt(c StCase) (res core.Result) {
	registerSyn()
	startMu.Lock()
	defer startMu.Unlock()
	defer func() {
		if r := recover(); r != nil {
			core.HarnessPanic(r)
			res = core.Result{Viol: core.Violate("C13/panic", "server.Start path panicked: %v", r)}
		}
	}()
	if !c.O.Has4 && !c.O.Has6 {
		res.Skipped = "bad-case"
		return
	}
	conf := &config.Config{}
	mk := func(l []OEntry, proto int) *config.ServerConfig {
		sc := &config.ServerConfig{}
		for i, e := range l {
			sc.Plugins = append(sc.Plugins, config.PluginConfig{Name: e.Name, Args: []string{e.Beh, fmt.Sprintf("%d.%d", proto, i)}})
		}
		return sc
	}
	// the relay the DHCPv4 replies go back to: giaddr 127.0.0.1, server port
	var relay *net.UDPConn
	if c.O.Has4 {
		var err error
		relay, err = net.ListenUDP("udp4", &net.UDPAddr{IP: net.IPv4(127, 0, 0, 1), Port: 67})
		if err != nil {
			res.Skipped = "cannot-bind-port-67"
			return
		}
		defer relay.Close()
		conf.Server4 = mk(c.O.L4, 4)
		for i := 0; i < c.N4; i++ {
			p := freePort("udp4", "127.0.0.1")
			if p == 0 {
				res.Skipped = "no-loopback-socket"
				return
			}
			conf.Server4.Addresses = append(conf.Server4.Addresses, net.UDPAddr{IP: net.IPv4(127, 0, 0, 1), Port: p})
		}
	}
	if c.O.Has6 {
		conf.Server6 = mk(c.O.L6, 6)
		for i := 0; i < c.N6; i++ {
			p := freePort("udp6", "::1")
			if p == 0 {
				res.Skipped = "no-loopback-socket"
				return
			}
			conf.Server6.Addresses = append(conf.Server6.Addresses, net.UDPAddr{IP: net.IPv6loopback, Port: p})
		}
	}
	ids4pre, _ := expectLoad(c.O.L4, false)
	ids6pre, _ := expectLoad(c.O.L6, true)
	var early *core.Violation
	var earlyMu sync.Mutex
	setEarly := func(v *core.Violation) {
		earlyMu.Lock()
		if early == nil {
			early = v
		}
		earlyMu.Unlock()
	}
	stopProbe := make(chan struct{})
	var pwg sync.WaitGroup
	if c.Slow {
		synSetupDelay.Store(int64(15 * time.Millisecond))
		defer synSetupDelay.Store(0)
		if c.O.Has6 {
			_, final, wantSent := expectRun(c.O.L6, ids6pre, 6)
			dst := conf.Server6.Addresses[0]
			if pc, perr := net.ListenUDP("udp6", &net.UDPAddr{IP: net.IPv6loopback}); perr == nil {
				pwg.Add(1)
				go func() {
					defer pwg.Done()
					defer pc.Close()
					buf := make([]byte, 2048)
					for k := uint32(0); ; k++ {
						select {
						case <-stopProbe:
							return
						default:
						}
						m := gen.Msg6Spec{Type: gen.M6Solicit, Xid: 0x5b0000 + k&0xffff, Client: 1}
						pc.WriteToUDP(m.Bytes(), &dst)
						pc.SetReadDeadline(time.Now().Add(time.Millisecond))
						if n, _, rerr := pc.ReadFromUDP(buf); rerr == nil {
							rep, perr := dhcpv6.FromBytes(buf[:n])
							if !wantSent || perr != nil || markers6(rep) != final {
								setEarly(core.Violate("C13/start/answered-before-the-chain-was-in-place", "a SOLICIT sent while server.Start was still setting the plugins up (chain %v) was answered, and not by that chain: markers %q, the chain's response carries %q (sent at all: %v)", c.O.L6, func() string {
									if perr != nil {
										return "?"
									}
									return markers6(rep)
								}(), final, wantSent))
							}
						}
					}
				}()
			}
		}
		if c.O.Has4 && relay != nil {
			_, final, wantSent := expectRun(c.O.L4, ids4pre, 4)
			dst := conf.Server4.Addresses[0]
			if pc, perr := net.ListenUDP("udp4", &net.UDPAddr{IP: net.IPv4(127, 0, 0, 1)}); perr == nil {
				pwg.Add(1)
				go func() {
					defer pwg.Done()
					defer pc.Close()
					buf := make([]byte, 2048)
					for k := uint32(0); ; k++ {
						select {
						case <-stopProbe:
							return
						default:
						}
						p := gen.Pkt4{Op: 1, HType: 1, HLen: 6, Xid: 0x5b400000 + k&0xffff, CHAddr: "020000000009", GIAddr: "127.0.0.1"}
						p.Opts = []gen.Opt4{{Code: 53, Hex: "01"}}
						pc.WriteToUDP(p.Bytes(), &dst)
						relay.SetReadDeadline(time.Now().Add(time.Millisecond))
						if n, _, rerr := relay.ReadFromUDP(buf); rerr == nil {
							r, perr := dhcpv4.FromBytes(buf[:n])
							if !wantSent || perr != nil || markers4(r) != final {
								setEarly(core.Violate("C13/start/answered-before-the-chain-was-in-place", "a DISCOVER sent while server.Start was still setting the plugins up (chain %v) was answered, and not by that chain (the chain's response carries markers %q, sent at all: %v)", c.O.L4, final, wantSent))
							}
						}
					}
				}()
			}
		}
	}
	logMu.Lock()
	setupCalls = map[string]int{}
	logMu.Unlock()
	srv, err := server.Start(conf)
	close(stopProbe)
	pwg.Wait()
	if c.Slow {
		time.Sleep(20 * time.Millisecond) // let the server finish with the last probes
	}
	if early != nil {
		if srv != nil {
			srv.Close()
		}
		res.Viol = early
		return
	}
	if err != nil {
		res.Skipped = "start-failed-environment" // ports raced away etc.; start-up errors of the plugin list are TestC13's subject
		res.Classes = []string{"start-error:" + err.Error()}
		return
	}
	defer srv.Close()
	ids4, _ := expectLoad(c.O.L4, false)
	ids6, _ := expectLoad(c.O.L6, true)
	// "the handlers instantiated are exactly the listed plugins": one instance per listed plugin and
	// protocol, however many addresses the server listens on (all listeners share the chain)
	for _, x := range []struct {
		proto int
		ids   []int
		n     int
	}{{4, ids4, c.N4}, {6, ids6, c.N6}} {
		for _, i := range x.ids {
			logMu.Lock()
			n := setupCalls[fmt.Sprintf("%d/%d.%d", x.proto, x.proto, i)]
			logMu.Unlock()
			if n != 1 {
				res.Viol = core.Violate("C13/start/plugin-instantiated-more-than-once", "server.Start with %d DHCPv%d listen addresses: plugin #%d of the DHCPv%d section was set up %d times, it is listed once", x.n, x.proto, i, x.proto, n)
				return
			}
		}
	}
	res.Classes = []string{"started"}
	res.NonTrivial = c.N4+c.N6 >= 2
	xid := uint32(0x57a70000)
	if c.O.Has4 {
		for li, a := range conf.Server4.Addresses {
			xid++
			logMu.Lock()
			invLog = nil
			logMu.Unlock()
			p := gen.Pkt4{Op: 1, HType: 1, HLen: 6, Xid: xid, CHAddr: "020000000001", GIAddr: "127.0.0.1"}
			p.Opts = []gen.Opt4{{Code: 53, Hex: "01"}}
			cl, err := net.DialUDP("udp4", nil, &a)
			if err != nil {
				res.Skipped = "no-loopback-socket"
				return
			}
			// drain stale replies
			relay.SetReadDeadline(time.Now().Add(time.Millisecond))
			buf := make([]byte, 2048)
			for {
				if _, _, err := relay.ReadFromUDP(buf); err != nil {
					break
				}
			}
			cl.Write(p.Bytes())
			cl.Close()
			wantLog, final, wantSent := expectRun(c.O.L4, ids4, 4)
			var got *dhcpv4.DHCPv4
			deadline := 2 * time.Second
			if !wantSent {
				deadline = 150 * time.Millisecond
			}
			relay.SetReadDeadline(time.Now().Add(deadline))
			for {
				n, _, err := relay.ReadFromUDP(buf)
				if err != nil {
					break
				}
				r, perr := dhcpv4.FromBytes(buf[:n])
				if perr == nil && r.TransactionID == [4]byte{byte(xid >> 24), byte(xid >> 16), byte(xid >> 8), byte(xid)} {
					got = r
					break
				}
			}
			if wantSent && got == nil {
				res.Viol = core.Violate("C13/start/listener-does-not-answer", "DHCPv4 listener #%d of %d (%v) with chain %v: no reply within 2 s", li, len(conf.Server4.Addresses), a.String(), c.O.L4)
				return
			}
			if !wantSent && got != nil {
				res.Viol = core.Violate("C13/v4/sent-mismatch", "DHCPv4 listener #%d with chain %v answered although the chain ends with a nil response", li, c.O.L4)
				return
			}
			if v := cmpLog(wantLog, xid, origSum(4, p.Bytes())); v != nil {
				v.Message = fmt.Sprintf("DHCPv4 listener #%d of %d: %s", li, len(conf.Server4.Addresses), v.Message)
				res.Viol = v
				return
			}
			if got != nil && markers4(got) != final {
				res.Viol = core.Violate("C13/v4/wrong-response-sent", "DHCPv4 listener #%d: reply carries markers %q, the response returned last carries %q", li, markers4(got), final)
				return
			}
		}
	}
	if c.O.Has6 {
		for li, a := range conf.Server6.Addresses {
			xid++
			logMu.Lock()
			invLog = nil
			logMu.Unlock()
			x := xid & 0xffffff
			m := gen.Msg6Spec{Type: gen.M6Solicit, Xid: x, Client: 0}
			cl, err := net.DialUDP("udp6", nil, &a)
			if err != nil {
				res.Skipped = "no-loopback-socket"
				return
			}
			cl.Write(m.Bytes())
			wantLog, final, wantSent := expectRun(c.O.L6, ids6, 6)
			deadline := 2 * time.Second
			if !wantSent {
				deadline = 150 * time.Millisecond
			}
			cl.SetReadDeadline(time.Now().Add(deadline))
			buf := make([]byte, 2048)
			n, rerr := cl.Read(buf)
			cl.Close()
			if wantSent && rerr != nil {
				res.Viol = core.Violate("C13/start/listener-does-not-answer", "DHCPv6 listener #%d of %d (%v) with chain %v: no reply within 2 s", li, len(conf.Server6.Addresses), a.String(), c.O.L6)
				return
			}
			if !wantSent && rerr == nil {
				res.Viol = core.Violate("C13/v6/sent-mismatch", "DHCPv6 listener #%d with chain %v answered although the chain ends with a nil response", li, c.O.L6)
				return
			}
			if v := cmpLog(wantLog, x, origSum(6, m.Bytes())); v != nil {
				v.Message = fmt.Sprintf("DHCPv6 listener #%d of %d: %s", li, len(conf.Server6.Addresses), v.Message)
				res.Viol = v
				return
			}
			if rerr == nil {
				rep, perr := dhcpv6.FromBytes(buf[:n])
				if perr != nil || markers6(rep) != final {
					res.Viol = core.Violate("C13/v6/wrong-response-sent", "DHCPv6 listener #%d: reply does not carry the markers %q of the response returned last (err %v)", li, final, perr)
					return
				}
			}
		}
	}
	return
}
