//go:build verif

package srv

import (
	"fmt"
	"net"
	"sort"
	"time"

	"github.com/coredhcp/coredhcp/config"
	"github.com/coredhcp/coredhcp/server"
	"github.com/insomniacslk/dhcp/dhcpv6"
	"pgregory.net/rapid"
	"verif/harness/core"
	"verif/harness/gen"
)

// PDStartCase: the prefix plugin behind the real start-up path (server.Start: LoadPlugins, one
// listener per configured address, the real Serve loops on loopback sockets) with several listen
// addresses. Clients talk to whichever listener they reach: the pool is one pool.
type PDStartCase struct {
	Mode string `json:"mode"` // C08 | C09
	// Listeners: number of DHCPv6 listen addresses ([::1]:port, ports from the kernel)
	Listeners int `json:"listeners"`
	// Bits: the pool has 2^Bits blocks of /64
	Bits int `json:"bits"`
	// Sends: client c sends a hint-less SOLICIT with one IA_PD to listener l
	Sends []PDSend `json:"sends"`
}

// PDSend is one message
type PDSend struct {
	Client   int `json:"c"`
	Listener int `json:"l"`
}

// GenPDStart draws a case for the given property
func GenPDStart(mode string) func(t *rapid.T) PDStartCase {
	return func(t *rapid.T) PDStartCase {
		c := PDStartCase{Mode: mode, Listeners: rapid.IntRange(1, 3).Draw(t, "listeners"), Bits: rapid.IntRange(1, 4).Draw(t, "bits")}
		nc := rapid.IntRange(2, 6).Draw(t, "clients")
		n := rapid.IntRange(2, 12).Draw(t, "sends")
		for i := 0; i < n; i++ {
			c.Sends = append(c.Sends, PDSend{Client: rapid.IntRange(0, nc-1).Draw(t, "client"), Listener: rapid.IntRange(0, c.Listeners-1).Draw(t, "listener")})
		}
		return c
	}
}

// ExecPDStart runs one case
func ExecPDStart(c PDStartCase) (res core.Result) {
	registerSyn()
	startMu.Lock()
	defer startMu.Unlock()
	defer func() {
		if r := recover(); r != nil {
			core.HarnessPanic(r)
			res = core.Result{Viol: core.Violate(c.Mode+"/panic", "server.Start path panicked: %v", r)}
		}
	}()
	if c.Listeners < 1 || c.Bits < 0 || c.Bits > 8 {
		res.Skipped = "bad-case"
		return
	}
	pool := fmt.Sprintf("2001:db8:77::/%d", 64-c.Bits)
	conf := &config.Config{Server6: &config.ServerConfig{Plugins: []config.PluginConfig{
		{Name: "server_id", Args: []string{"LL", "00:de:ad:be:ef:00"}},
		{Name: "prefix", Args: []string{pool, "64"}},
	}}}
	for i := 0; i < c.Listeners; i++ {
		p := freePort("udp6", "::1")
		if p == 0 {
			res.Skipped = "no-loopback-socket"
			return
		}
		conf.Server6.Addresses = append(conf.Server6.Addresses, net.UDPAddr{IP: net.IPv6loopback, Port: p})
	}
	srv, err := server.Start(conf)
	if err != nil {
		res.Skipped = "start-failed-environment"
		return
	}
	defer srv.Close()
	_, poolNet, _ := net.ParseCIDR(pool)
	owner := map[string]int{} // delegated prefix -> client
	held := map[int]string{}  // client -> the prefix it was told first
	reached := map[int]bool{} // listeners that answered
	answered, exhausted := 0, false
	for i, s := range c.Sends {
		if s.Listener < 0 || s.Listener >= c.Listeners || s.Client < 0 {
			continue
		}
		cl, err := net.DialUDP("udp6", nil, &conf.Server6.Addresses[s.Listener])
		if err != nil {
			res.Skipped = "no-loopback-socket"
			return
		}
		xid := uint32(0x7d0000 + i)
		cid := gen.Opt6(gen.O6ClientID, gen.DUIDLL(1, []byte{0x02, 0x7d, 0x00, 0x00, 0x00, byte(s.Client)}))
		w := gen.Msg6(gen.M6Solicit, xid, cid, gen.Opt6(gen.O6ElapsedTime, []byte{0, 0}), gen.IAPD6([4]byte{0, 0, 0, 1}, 0, 0))
		cl.Write(w)
		cl.SetReadDeadline(time.Now().Add(2 * time.Second))
		buf := make([]byte, 4096)
		n, rerr := cl.Read(buf)
		cl.Close()
		if rerr != nil {
			// no conclusion from silence (a loaded machine): the message may or may not have been handled
			res.Skipped = "no-reply-in-time"
			return
		}
		rep, perr := dhcpv6.FromBytes(buf[:n])
		if perr != nil {
			res.Viol = core.Violate(c.Mode+"/start/reply-does-not-parse", "message %d: the reply of listener #%d does not parse: %v", i, s.Listener, perr)
			return
		}
		m, ok := rep.(*dhcpv6.Message)
		if !ok || m.TransactionID != [3]byte{byte(xid >> 16), byte(xid >> 8), byte(xid)} {
			continue
		}
		answered++
		reached[s.Listener] = true
		ias := m.Options.IAPD()
		if len(ias) != 1 {
			if c.Mode == "C08" {
				res.Viol = core.Violate("C08/start/iapd-correspondence", "message %d: one IA_PD asked of listener #%d, %d in the reply", i, s.Listener, len(ias))
			}
			return
		}
		ps := ias[0].Options.Prefixes()
		if len(ps) == 0 {
			exhausted = true
			if _, has := held[s.Client]; has && c.Mode == "C09" {
				res.Viol = core.Violate("C09/start/hintless-renew-does-not-return-held-prefix", "message %d: client %d was told %s (by another or the same listener of this server) and asks listener #%d without a hint: the IA_PD comes back without a prefix", i, s.Client, held[s.Client], s.Listener)
				return
			}
			continue
		}
		got := map[string]bool{}
		for _, p := range ps {
			if p.Prefix == nil {
				continue
			}
			k := p.Prefix.String()
			got[k] = true
			if c.Mode == "C08" {
				if !poolNet.Contains(p.Prefix.IP) {
					res.Viol = core.Violate("C08/start/prefix-outside-pool", "message %d: listener #%d delegated %s, outside %s", i, s.Listener, k, pool)
					return
				}
				if o, taken := owner[k]; taken && o != s.Client {
					res.Viol = core.Violate("C08/start/block-delegated-to-two-clients", "message %d: listener #%d of %d delegated %s to client %d; client %d was delegated the same block earlier (the server has one pool, whichever address a client reaches it on)", i, s.Listener, c.Listeners, k, s.Client, o)
					return
				}
			}
			owner[k] = s.Client
		}
		if first, has := held[s.Client]; has {
			if c.Mode == "C09" && !got[first] {
				res.Viol = core.Violate("C09/start/hintless-renew-does-not-return-held-prefix", "message %d: client %d was told %s and asks again without a hint, this time at listener #%d of %d: answered with %v", i, s.Client, first, s.Listener, c.Listeners, keys(got))
				return
			}
		} else {
			held[s.Client] = keys(got)[0]
		}
	}
	res.Classes = []string{fmt.Sprintf("listeners:%d", c.Listeners)}
	if exhausted {
		res.Classes = append(res.Classes, "exhausted")
	}
	// non-trivial: two different listeners answered
	res.NonTrivial = len(reached) >= 2 && answered >= 2
	return
}

func keys(m map[string]bool) []string {
	var r []string
	for k := range m {
		r = append(r, k)
	}
	sort.Strings(r)
	return r
}
