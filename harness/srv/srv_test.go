//go:build verif

package srv

import (
	"os"
	"testing"

	"verif/harness/core"
)

func TestMain(m *testing.M) {
	rc := m.Run()
	Cleanup()
	os.Exit(rc)
}

func TestC01(t *testing.T) { core.Run(t, "C01", GenH(false), ExecH) }

func TestC11(t *testing.T) {
	core.Quiet()
	if os.Getenv("VERIF_REPLAY") == "" && core.FirstShard() {
		c := core.For("C11")
		n := int64(0)
		for _, cs := range EnumR4() {
			n++
			if !core.Direct(t, c, cs, ExecR4(cs)) {
				c.Flush()
				return
			}
		}
		c.MarkExhaustive("256 opcodes x 257 message-type values (incl. absent) on a fixed relayed body", n)
	}
	core.Run(t, "C11", GenR4, ExecR4)
}

func TestC12(t *testing.T) {
	core.Quiet()
	if os.Getenv("VERIF_REPLAY") == "" && core.FirstShard() {
		c := core.For("C12")
		n := int64(0)
		for _, cs := range EnumR6() {
			n++
			if !core.Direct(t, c, cs, ExecR6(cs)) {
				c.Flush()
				return
			}
		}
		c.MarkExhaustive("256 message types x client-id present/absent x rapid-commit present/absent x relay depth 0..2", n)
	}
	core.Run(t, "C12", GenR6, ExecR6)
}

func TestC13(t *testing.T)        { core.Run(t, "C13", GenO, ExecO) }
func TestC13Builtin(t *testing.T) { core.Run(t, "C13", GenH(true), ExecH) }

func TestC15(t *testing.T) {
	core.Quiet()
	if os.Getenv("VERIF_REPLAY") == "" && core.FirstShard() {
		c := core.For("C15")
		n := int64(0)
		for _, cs := range EnumA4() {
			n++
			if !core.Direct(t, c, cs, ExecA4(cs)) {
				c.Flush()
				return
			}
		}
		c.MarkExhaustive("giaddr x ciaddr in {0, routable x2, link-local, broadcast} x broadcast flag x DISCOVER/REQUEST x plugin action {address, none, NAK} x listener {bound, unbound, unbound on a missing interface}", n)
	}
	core.Run(t, "C15", GenA4, ExecA4)
}

func TestC16(t *testing.T) { core.Run(t, "C16", GenC, ExecC) }

func TestC15Seq(t *testing.T) { core.Run(t, "C15", GenA4Seq, ExecA4Seq) }

func TestC16Serve(t *testing.T) { core.Run(t, "C16", GenS, ExecS) }
func TestC01Burst(t *testing.T) { core.Run(t, "C01", GenHBurst, ExecH) }
func TestC01Serve(t *testing.T) { core.Run(t, "C01", GenS01, ExecS) }
func TestC11Serve(t *testing.T) { core.Run(t, "C11", GenS11, ExecS) }
func TestC12Serve(t *testing.T) { core.Run(t, "C12", GenS12, ExecS) }

func TestC11Hist(t *testing.T) { core.Run(t, "C11", GenHVerify(4), ExecH) }
func TestC12Hist(t *testing.T) { core.Run(t, "C12", GenHVerify(6), ExecH) }

func TestC12Start(t *testing.T) { core.Run(t, "C12", GenC12Start, ExecC12Start) }
func TestC13Start(t *testing.T) { core.Run(t, "C13", GenSt, ExecSt) }

func TestC14Hist(t *testing.T)  { core.Run(t, "C14", GenH14, ExecH) }
func TestC08Start(t *testing.T) { core.Run(t, "C08", GenPDStart("C08"), ExecPDStart) }
func TestC09Start(t *testing.T) { core.Run(t, "C09", GenPDStart("C09"), ExecPDStart) }
