//go:build verif

package srv

import (
	"bytes"
	"encoding/hex"
	"fmt"
	"net"
	"os"
	"path/filepath"
	"runtime"
	"strings"
	"sync"
	"sync/atomic"
	"time"

	"github.com/coredhcp/coredhcp/handler"
	"github.com/coredhcp/coredhcp/server"
	"github.com/insomniacslk/dhcp/dhcpv4"
	"github.com/insomniacslk/dhcp/dhcpv6"
	"golang.org/x/net/ipv4"
	"golang.org/x/net/ipv6"
	"pgregory.net/rapid"
	"verif/harness/core"
	"verif/harness/gen"
	"verif/harness/plug"
)

// Send is one datagram a goroutine sends: client index and message kind
type Send struct {
	Client int  `json:"c"`
	Req    bool `json:"r,omitempty"` // REQUEST / RENEW instead of DISCOVER / SOLICIT
	// Bad: 1 truncated, 2 bad cookie / bad option, 3 a reply opcode / unsupported type: the server must drop it,
	// and whatever it does with the receive buffer on that path must not disturb other datagrams
	Bad int `json:"b,omitempty"`
	// L2 (DHCPv4): not relayed, no ciaddr, no broadcast flag: the reply is a link-level unicast frame
	L2 bool `json:"l2,omitempty"`
}

// CCase is one concurrency scenario
type CCase struct {
	// Kind: v4 | v6 | dual
	Kind string `json:"kind"`
	// Static: number of clients listed in the static lease file; Dynamic: clients served by range / prefix
	Static  int `json:"static"`
	Dynamic int `json:"dynamic"`
	// Pool: number of dynamic addresses (v4 range size) or blocks (v6)
	Pool    int      `json:"pool"`
	Refresh bool     `json:"refresh,omitempty"` // file plugin with autorefresh + concurrent rewrites
	Scripts [][]Send `json:"scripts"`           // one per goroutine
	// Sleep: the chain starts with the sleep plugin and this argument (its documented use: in
	// front of the lease plugins); every datagram is delayed, none is lost
	Sleep string `json:"sleep,omitempty"`
}

// GenC draws a scenario
func GenC(t *rapid.T) CCase {
	c := CCase{Kind: rapid.SampledFrom([]string{"v4", "v4", "v6", "v6", "dual"}).Draw(t, "kind")}
	c.Static = rapid.IntRange(1, 3).Draw(t, "static")
	c.Dynamic = rapid.IntRange(2, 8).Draw(t, "dynamic")
	c.Pool = c.Dynamic + rapid.IntRange(-2, 1).Draw(t, "pool-slack")
	if c.Pool < 2 {
		c.Pool = 2
	}
	c.Refresh = rapid.Bool().Draw(t, "refresh")
	if rapid.IntRange(0, 2).Draw(t, "with-sleep") == 0 {
		c.Sleep = rapid.SampledFrom([]string{"200us", "2ms", "10ms"}).Draw(t, "sleep")
	}
	g := rapid.IntRange(8, 32).Draw(t, "goroutines")
	if core.Thorough() {
		g = rapid.IntRange(8, 64).Draw(t, "goroutines-thorough")
	}
	// one scenario in four sends nearly everything on the link-level path (replies leave as frames on
	// the interface the request arrived on, and the requests arrive on different ones)
	l2Heavy := rapid.IntRange(0, 3).Draw(t, "l2-heavy") == 0
	for i := 0; i < g; i++ {
		n := rapid.IntRange(3, 12).Draw(t, "script-len")
		var s []Send
		for j := 0; j < n; j++ {
			cl := rapid.IntRange(0, c.Static+c.Dynamic-1).Draw(t, "client")
			if rapid.IntRange(0, 3).Draw(t, "storm") == 0 {
				cl = c.Static // the first dynamic client, from many goroutines at once
			}
			snd := Send{Client: cl, Req: rapid.Bool().Draw(t, "req")}
			if rapid.IntRange(0, 7).Draw(t, "bad") == 0 {
				snd.Bad = rapid.IntRange(1, 3).Draw(t, "bad-kind")
			}
			snd.L2 = rapid.IntRange(0, 2).Draw(t, "l2") == 0 || (l2Heavy && rapid.IntRange(0, 7).Draw(t, "l2h") > 0)
			s = append(s, snd)
		}
		c.Scripts = append(c.Scripts, s)
	}
	return c
}

func staticMAC(i int) []byte  { return []byte{0x02, 0x57, 0xa7, 0x1c, 0x00, byte(i)} }
func dynamicMAC(i int) []byte { return []byte{0x02, 0xd1, 0x4a, 0x31, 0x00, byte(i)} }

func leaseText(n int, v6 bool, gen2 bool) string {
	var sb strings.Builder
	for i := 0; i < n; i++ {
		off := 50
		if gen2 {
			off = 150
		}
		if v6 {
			fmt.Fprintf(&sb, "%s 2001:db8::%x\n", net.HardwareAddr(staticMAC(i)), off+i)
		} else {
			fmt.Fprintf(&sb, "%s 10.10.10.%d\n", net.HardwareAddr(staticMAC(i)), off+i)
		}
	}
	s := sb.String()
	return s + "#" + strings.Repeat("p", 2046-len(s)) + "\n"
}

type concObs struct {
	client  int
	v6      bool
	served  bool
	addr    net.IP       // yiaddr / IA_NA address
	prefix  []*net.IPNet // delegated prefixes
	noAvail bool
}

// ExecC runs one scenario
func ExecC(c CCase) (res core.Result) {
	if !fdBudgetLeft() {
		res.Skipped = "fd-limit"
		return
	}
	refresh := c.Refresh
	need := int64(1)
	if c.Kind == "dual" {
		need = 2
	}
	if refresh && watchers.Load()+need > int64(core.EnvInt("VERIF_MAX_WATCHERS", 30)) {
		refresh = false
	}
	plug.Reset()
	dir := scratch()
	seq := fileSeq.Add(1)
	f4 := filepath.Join(dir, fmt.Sprintf("c16-l4-%d.txt", seq))
	f6 := filepath.Join(dir, fmt.Sprintf("c16-l6-%d.txt", seq))
	db := filepath.Join(dir, fmt.Sprintf("c16-%d.sqlite", seq))
	os.WriteFile(f4, []byte(leaseText(c.Static, false, false)), 0o644)
	os.WriteFile(f6, []byte(leaseText(c.Static, true, false)), 0o644)
	defer func() {
		os.Remove(f4)
		os.Remove(f6)
		os.Remove(db)
	}()
	fileArgs := func(f string) []string {
		if refresh {
			watchers.Add(1)
			return []string{f, "autorefresh"}
		}
		return []string{f}
	}
	var h4 []handler.Handler4
	var h6 []handler.Handler6
	var inflight, maxInflight atomic.Int64
	enter := func() {
		n := inflight.Add(1)
		for {
			m := maxInflight.Load()
			if n <= m || maxInflight.CompareAndSwap(m, n) {
				break
			}
		}
	}
	if c.Kind == "v4" || c.Kind == "dual" {
		dbOpens.Add(1)
		end := net.IPv4(10, 10, 10, byte(100+c.Pool-1)).String()
		specs := []struct {
			n string
			a []string
		}{{"server_id", []string{"10.10.10.1"}}, {"file", fileArgs(f4)}, {"range", []string{db, "10.10.10.100", end, "60s"}}, {"dns", []string{"8.8.8.8"}}, {"router", []string{"10.10.10.1"}}, {"netmask", []string{"255.255.255.0"}}, {"searchdomains", []string{"a4.example", "b4.example.org"}}, {"lease_time", []string{"3600s"}}}
		h4 = append(h4, func(req, resp *dhcpv4.DHCPv4) (*dhcpv4.DHCPv4, bool) { runtime.Gosched(); return resp, false })
		if c.Sleep != "" {
			specs = append([]struct {
				n string
				a []string
			}{{"sleep", []string{c.Sleep}}}, specs...)
		}
		for _, s := range specs {
			h, err := plug.ByName(s.n).Setup4(s.a...)
			if err != nil {
				if strings.Contains(err.Error(), "watcher") || strings.Contains(err.Error(), "too many open files") {
					res.Skipped = "inotify-limit"
					return
				}
				res.Viol = core.Violate("C16/harness-chain-setup", "%s %v: %v", s.n, s.a, err)
				return
			}
			h4 = append(h4, h)
		}
	}
	if c.Kind == "v6" || c.Kind == "dual" {
		// pool of c.Pool blocks, rounded up to a power of two; the extra blocks are taken by a filler client first
		bits := 0
		for 1<<bits < c.Pool {
			bits++
		}
		specs := []struct {
			n string
			a []string
		}{{"server_id", []string{"LL", "00:de:ad:be:ef:00"}}, {"file", fileArgs(f6)}, {"prefix", []string{fmt.Sprintf("2001:db8:0:1000::/%d", 64-bits), "64"}}, {"dns", []string{"2001:4860:4860::8888"}}, {"searchdomains", []string{"a6.example", "b6.example.net", "c6.example"}}}
		h6 = append(h6, func(req, resp dhcpv6.DHCPv6) (dhcpv6.DHCPv6, bool) { runtime.Gosched(); return resp, false })
		if c.Sleep != "" {
			specs = append([]struct {
				n string
				a []string
			}{{"sleep", []string{c.Sleep}}}, specs...)
		}
		for _, s := range specs {
			h, err := plug.ByName(s.n).Setup6(s.a...)
			if err != nil {
				if strings.Contains(err.Error(), "watcher") || strings.Contains(err.Error(), "too many open files") {
					res.Skipped = "inotify-limit"
					return
				}
				res.Viol = core.Violate("C16/harness-chain-setup", "%s %v: %v", s.n, s.a, err)
				return
			}
			h6 = append(h6, h)
		}
	}
	cap4 := server.NewCapture4(h4, nil)
	cap6 := server.NewCapture6(h6, nil)
	l2if, _ := ifaces()
	recv4 := 1
	if l2if != nil {
		recv4 = l2if.Index
	}

	macOf := func(cl int) []byte {
		if cl < c.Static {
			return staticMAC(cl)
		}
		return dynamicMAC(cl - c.Static)
	}
	var (
		mu    sync.Mutex
		obs   []concObs
		viol  *core.Violation
		wg    sync.WaitGroup
		start = make(chan struct{})
		stopW = make(chan struct{})
		xids  atomic.Uint32
	)
	abort := make(chan struct{})
	var abortOnce sync.Once
	report := func(v *core.Violation) {
		mu.Lock()
		if viol == nil {
			viol = v
		}
		mu.Unlock()
		if strings.HasSuffix(v.Signature, "/panic") {
			abortOnce.Do(func() { close(abort) })
		}
	}
	one4 := func(s Send) {
		xid := xids.Add(1)
		mac := macOf(s.Client)
		p := gen.Pkt4{Op: 1, HType: 1, HLen: 6, Xid: xid, CHAddr: hex.EncodeToString(mac), GIAddr: "10.10.10.254"}
		l2 := s.L2 && l2if != nil && s.Bad == 0
		if l2 {
			p.GIAddr = ""
		}
		mt := "01"
		if s.Req {
			mt = "03"
		}
		p.Opts = []gen.Opt4{{Code: 53, Hex: mt}, {Code: 55, Hex: "010306"}, {Code: 61, Hex: "01" + hex.EncodeToString(mac)}}
		wire := p.Bytes()
		switch s.Bad {
		case 1:
			wire = wire[:100+int(xid%130)]
		case 2:
			wire[236] ^= 0xff
		case 3:
			wire[0] = 2
		}
		// link-level replies leave on the interface the request arrived on (the listener is unbound):
		// requests in flight at the same time arrive on different interfaces
		recvIdx := recv4
		if l2 {
			if all := l2List(); len(all) > 0 {
				recvIdx = all[int(xid)%len(all)].Index
			}
		}
		enter()
		sent, pan := feed4(cap4, wire, &ipv4.ControlMessage{IfIndex: recvIdx}, &net.UDPAddr{IP: net.IPv4(10, 10, 10, 254), Port: 67})
		inflight.Add(-1)
		if pan != nil {
			report(core.Violate("C16/panic", "HandleMsg4 panicked under concurrent load: %v", pan))
			return
		}
		o := concObs{client: s.Client}
		if s.Bad != 0 {
			if len(sent) != 0 {
				report(core.Violate("C16/cross-talk", "a malformed datagram (kind %d) was answered under concurrent load", s.Bad))
			}
			return
		}
		if len(sent) > 1 {
			report(core.Violate("C16/cross-talk", "one request produced %d replies", len(sent)))
			return
		}
		if len(sent) == 1 {
			payload := sent[0].Payload
			if sent[0].L2 != l2 {
				report(core.Violate("C16/cross-talk", "request xid %#x (link-level path %v) was answered on the other path", xid, l2))
				return
			}
			if l2 {
				if sent[0].L2IfIndex != recvIdx {
					report(core.Violate("C16/cross-talk", "the frame answering xid %#x of %v, which arrived on interface %d, left on interface %d (%s): in every one-at-a-time order it leaves where the request came in", xid, net.HardwareAddr(mac), recvIdx, sent[0].L2IfIndex, sent[0].L2IfName))
					return
				}
				f, ok := decodeFrame(sent[0].Frame)
				if !ok || !bytes.Equal(f.dstMAC, mac) {
					report(core.Violate("C16/cross-talk", "the frame answering xid %#x of %v is addressed to %v: frames were mixed up", xid, net.HardwareAddr(mac), f.dstMAC))
					return
				}
				payload = f.payload
			}
			rep, err := dhcpv4.FromBytes(payload)
			if err != nil {
				report(core.Violate("C16/cross-talk", "reply does not parse: %v", err))
				return
			}
			want := [4]byte{byte(xid >> 24), byte(xid >> 16), byte(xid >> 8), byte(xid)}
			if rep.TransactionID != want || !bytes.Equal(rep.ClientHWAddr, mac) {
				report(core.Violate("C16/cross-talk", "request xid %x of %v was answered with a reply for xid %x / %v: requests were mixed up", want, net.HardwareAddr(mac), rep.TransactionID, rep.ClientHWAddr))
				return
			}
			o.served, o.addr = true, rep.YourIPAddr
			if s.Client >= c.Static {
				// dynamic clients pass the whole chain: the search list must be this protocol's own
				names, okn := gen.DecodeNames(rep.Options.Get(dhcpv4.OptionDNSDomainSearchList))
				if !okn || strings.Join(names, " ") != "a4.example b4.example.org" {
					report(core.Violate("C16/wrong-option-under-load", "reply to xid %#x carries search list %q, configured for DHCPv4: [a4.example b4.example.org]", xid, names))
					return
				}
			}
		}
		mu.Lock()
		obs = append(obs, o)
		mu.Unlock()
	}
	one6 := func(s Send) {
		xid := xids.Add(1) & 0xffffff
		mac := macOf(s.Client)
		typ := uint8(gen.M6Solicit)
		opts := [][]byte{gen.Opt6(gen.O6ClientID, gen.DUIDLL(1, mac)), gen.Opt6(gen.O6ElapsedTime, []byte{0, 0})}
		if s.Req {
			typ = gen.M6Renew
			opts = append(opts, gen.Opt6(gen.O6ServerID, gen.OwnDUID6))
		}
		opts = append(opts, gen.ORO6(23), gen.IANA6([4]byte{0, 0, 0, 1}, 0, 0), gen.IAPD6([4]byte{0, 0, 0, 2}, 0, 0))
		wire := gen.Msg6(typ, xid, opts...)
		switch s.Bad {
		case 1:
			wire = wire[:5+int(xid%3)] // ends inside the first option header
		case 2:
			wire = append(wire, 0, 25, 0, 200, 1) // an IA_PD option whose length runs past the end
		case 3:
			wire[0] = gen.M6Advertise
		}
		enter()
		sent, pan := feed6(cap6, wire, &ipv6.ControlMessage{IfIndex: 1}, &net.UDPAddr{IP: net.ParseIP("2001:db8::99"), Port: 546})
		inflight.Add(-1)
		if pan != nil {
			report(core.Violate("C16/panic", "HandleMsg6 panicked under concurrent load: %v", pan))
			return
		}
		o := concObs{client: s.Client, v6: true}
		if s.Bad != 0 {
			if len(sent) != 0 {
				report(core.Violate("C16/cross-talk", "a malformed DHCPv6 datagram (kind %d) was answered under concurrent load", s.Bad))
			}
			return
		}
		if len(sent) == 1 {
			rep, err := dhcpv6.FromBytes(sent[0].Payload)
			if err != nil {
				report(core.Violate("C16/cross-talk", "reply does not parse: %v", err))
				return
			}
			m := rep.(*dhcpv6.Message)
			want := [3]byte{byte(xid >> 16), byte(xid >> 8), byte(xid)}
			cid := m.Options.ClientID()
			if m.TransactionID != want || cid == nil || !bytes.Equal(cid.ToBytes(), gen.DUIDLL(1, mac)) {
				report(core.Violate("C16/cross-talk", "request xid %x of %v was answered with a reply for xid %x / %v: requests were mixed up", want, net.HardwareAddr(mac), m.TransactionID, cid))
				return
			}
			o.served = true
			var sl []string
			if tl, okt := gen.Options6(sent[0].Payload[4:]); okt {
				for _, t6 := range tl {
					if t6.Code == gen.O6DomainList {
						sl, _ = gen.DecodeNames(t6.Data)
					}
				}
			}
			if strings.Join(sl, " ") != "a6.example b6.example.net c6.example" {
				report(core.Violate("C16/wrong-option-under-load", "reply to xid %#x carries search list %q, configured for DHCPv6: [a6.example b6.example.net c6.example]", xid, sl))
				return
			}
			if ia := m.Options.OneIANA(); ia != nil && len(ia.Options.Addresses()) > 0 {
				o.addr = ia.Options.Addresses()[0].IPv6Addr
			}
			for _, pd := range m.Options.IAPD() {
				for _, p := range pd.Options.Prefixes() {
					o.prefix = append(o.prefix, p.Prefix)
				}
				if len(pd.Options.Prefixes()) == 0 {
					o.noAvail = true
				}
			}
		}
		mu.Lock()
		obs = append(obs, o)
		mu.Unlock()
	}
	for g := range c.Scripts {
		wg.Add(1)
		go func(g int) {
			defer wg.Done()
			<-start
			for j, s := range c.Scripts[g] {
				switch c.Kind {
				case "v4":
					one4(s)
				case "v6":
					one6(s)
				default:
					if (g+j)%2 == 0 {
						one4(s)
					} else {
						one6(s)
					}
				}
			}
		}(g)
	}
	// the lease files are rewritten in place while requests are in flight
	var wwg sync.WaitGroup
	if refresh {
		wwg.Add(1)
		go func() {
			defer wwg.Done()
			<-start
			for i := 0; ; i++ {
				select {
				case <-stopW:
					return
				default:
				}
				if c.Kind != "v6" {
					writeAt(f4, leaseText(c.Static, false, i%2 == 0))
				}
				if c.Kind != "v4" {
					writeAt(f6, leaseText(c.Static, true, i%2 == 0))
				}
				time.Sleep(300 * time.Microsecond)
			}
		}()
	}
	close(start)
	finished := core.WaitTimeout(&wg, abort, 90*time.Second)
	close(stopW)
	wwg.Wait()
	mu.Lock()
	v := viol
	mu.Unlock()
	if v != nil {
		res.Viol = v
		return
	}
	if !finished {
		res.Viol = core.Violate("C16/wedged", "handler calls did not return within 90 s under concurrent load")
		return
	}
	// ---- the last two updates of the lease file arrive back to back (a large file, then the
	// final one): their reloads may overlap, but in every serial order of datagrams and refresh
	// events the later content is the one in force afterwards
	if refresh && c.Kind != "v6" && c.Static > 0 && cap4 != nil {
		var sb strings.Builder
		sb.WriteString(leaseText(c.Static, false, true))
		for i := 0; i < 12000; i++ {
			fmt.Fprintf(&sb, "02:ff:00:00:%02x:%02x 10.77.%d.%d\n", byte(i>>8), byte(i), byte(i>>8), byte(i))
		}
		big := sb.String()
		// the final content lists one more client, so that it can be told from the content
		// that happened to be in force before
		fin := "02:ff:ff:ff:ff:01 10.10.10.249\n" + leaseText(c.Static, false, false)
		fin += "#" + strings.Repeat("q", len(big)-len(fin)-2) + "\n"
		probe := func(i int) net.IP {
			mac := staticMAC(i)
			if i < 0 {
				mac = []byte{0x02, 0xff, 0xff, 0xff, 0xff, 0x01}
			}
			p := gen.Pkt4{Op: 1, HType: 1, HLen: 6, Xid: xids.Add(1), CHAddr: hex.EncodeToString(mac), GIAddr: "10.10.10.254"}
			p.Opts = []gen.Opt4{{Code: 53, Hex: "01"}}
			sent, _ := feed4(cap4, p.Bytes(), &ipv4.ControlMessage{IfIndex: recv4}, &net.UDPAddr{IP: net.IPv4(10, 10, 10, 254), Port: 67})
			if len(sent) != 1 {
				return nil
			}
			rep, err := dhcpv4.FromBytes(sent[0].Payload)
			if err != nil {
				return nil
			}
			return rep.YourIPAddr
		}
		writeAt(f4, big)
		writeAt(f4, fin)
		want := func(i int) net.IP {
			if i < 0 {
				return net.IPv4(10, 10, 10, 249)
			}
			return net.IPv4(10, 10, 10, byte(50+i))
		}
		end := time.Now().Add(15 * time.Second)
		for !want(-1).Equal(probe(-1)) {
			if time.Now().After(end) {
				res.Viol = core.Violate("C16/last-file-content-never-in-force", "15 s after the last rewrite of the lease file the client it adds is served %v, the file says %v", probe(-1), want(-1))
				return
			}
			time.Sleep(200 * time.Microsecond)
		}
		hold := time.Now().Add(150 * time.Millisecond)
		for time.Now().Before(hold) {
			for i := -1; i < c.Static; i++ {
				if got := probe(i); !want(i).Equal(got) {
					res.Viol = core.Violate("C16/older-file-content-comes-back", "after the last content of the lease file was in force, static client %d is served %v again (the file says %v): a reload of an older content was published over a newer one", i, got, want(i))
					return
				}
			}
			time.Sleep(time.Millisecond)
		}
	}
	// ---- serial-equivalence invariants
	addrOf := map[string]int{}     // dynamic address -> client
	clientAddr := map[int]string{} // dynamic client -> address
	prefOwner := map[string]int{}
	held := map[int]map[string]bool{}
	refused4, refused6 := false, false
	for _, o := range obs {
		isStatic := o.client < c.Static
		if !o.v6 {
			if !o.served {
				if isStatic {
					res.Viol = core.Violate("C16/static-client-not-served", "static client %d got no reply", o.client)
					return
				}
				refused4 = true
				continue
			}
			if isStatic {
				a, b := net.IPv4(10, 10, 10, byte(50+o.client)), net.IPv4(10, 10, 10, byte(150+o.client))
				if !o.addr.Equal(a) && !(refresh && o.addr.Equal(b)) {
					res.Viol = core.Violate("C16/static-mapping", "static client %d was given %v, neither the old (%v) nor the new (%v) mapping", o.client, o.addr, a, b)
					return
				}
				continue
			}
			k := o.addr.String()
			if prev, ok := clientAddr[o.client]; ok && prev != k {
				res.Viol = core.Violate("C16/lease-not-stable", "client %d was given %s and %s", o.client, prev, k)
				return
			}
			if other, ok := addrOf[k]; ok && other != o.client {
				res.Viol = core.Violate("C16/duplicate-lease", "address %s given to clients %d and %d", k, other, o.client)
				return
			}
			v, _ := ipu32(o.addr)
			if v < 0x0a0a0a64 || v > uint32(0x0a0a0a64+c.Pool-1) {
				res.Viol = core.Violate("C16/lease-outside-range", "client %d was given %s", o.client, k)
				return
			}
			clientAddr[o.client], addrOf[k] = k, o.client
			continue
		}
		if !o.served {
			continue
		}
		if isStatic {
			a, b := net.ParseIP(fmt.Sprintf("2001:db8::%x", 50+o.client)), net.ParseIP(fmt.Sprintf("2001:db8::%x", 150+o.client))
			if o.addr == nil || (!o.addr.Equal(a) && !(refresh && o.addr.Equal(b))) {
				res.Viol = core.Violate("C16/static-mapping", "static v6 client %d was given %v, neither the old (%v) nor the new (%v) mapping", o.client, o.addr, a, b)
				return
			}
		}
		if o.noAvail {
			refused6 = true
		}
		for _, p := range o.prefix {
			k := p.String()
			if other, ok := prefOwner[k]; ok && other != o.client {
				res.Viol = core.Violate("C16/duplicate-prefix", "prefix %s delegated to clients %d and %d", k, other, o.client)
				return
			}
			prefOwner[k] = o.client
			if held[o.client] == nil {
				held[o.client] = map[string]bool{}
			}
			held[o.client][k] = true
		}
	}
	if refused4 && len(addrOf) != c.Pool {
		res.Viol = core.Violate("C16/refused-while-not-full", "a dynamic client was refused although only %d of %d addresses are bound at the end", len(addrOf), c.Pool)
		return
	}
	for cl, hs := range held {
		if len(hs) > 1 {
			// every request was hint-less: a client is given its prefix back, never a second block
			res.Viol = core.Violate("C16/client-holds-several-prefixes", "client %d was delegated %d different prefixes by hint-less requests", cl, len(hs))
			return
		}
	}
	_ = refused6
	res.NonTrivial = maxInflight.Load() >= 2
	res.Classes = []string{"kind:" + c.Kind, fmt.Sprintf("refresh:%v", refresh)}
	if refused4 || refused6 {
		res.Classes = append(res.Classes, "exhausted")
	}
	if c.Sleep != "" {
		res.Classes = append(res.Classes, "sleep-in-front")
	}
	core.For("C16").AddExtra("max_inflight_sum", maxInflight.Load())
	return
}

func writeAt(path, text string) {
	f, err := os.OpenFile(path, os.O_WRONLY, 0)
	if err != nil {
		return
	}
	f.WriteAt([]byte(text), 0)
	f.Close()
}

func ipu32(ip net.IP) (uint32, bool) {
	x := ip.To4()
	if x == nil {
		return 0, false
	}
	return uint32(x[0])<<24 | uint32(x[1])<<16 | uint32(x[2])<<8 | uint32(x[3]), true
}
