package lease4

import (
	"encoding/hex"

	"pgregory.net/rapid"
	"verif/harness/core"
)

var hostileHosts = []string{"123", "1e5", "0x10", "1.50", "-0", "007", " 42", "NaN", "Infinity", "host", "a.b.example", "\x00", "a\x00b", "\xff\xfe", "caf\xc3\xa9", "'; drop table leases4; --", "1e999"}

func genHost(t *rapid.T) string {
	switch rapid.IntRange(0, 5).Draw(t, "host-kind") {
	case 0, 1:
		return ""
	case 2, 3:
		return hex.EncodeToString([]byte(rapid.SampledFrom(hostileHosts).Draw(t, "host")))
	case 4:
		return hex.EncodeToString(rapid.SliceOfN(rapid.Byte(), 1, 40).Draw(t, "host-bytes"))
	default:
		n := rapid.SampledFrom([]int{1, 63, 64, 255}).Draw(t, "host-len")
		b := make([]byte, n)
		for i := range b {
			b[i] = 'a' + byte(i%26)
		}
		return hex.EncodeToString(b)
	}
}

func genHW(t *rapid.T, i int, mode string) string {
	var l int
	if mode == "C03" {
		l = rapid.IntRange(0, 16).Draw(t, "hwlen")
	} else {
		l = rapid.SampledFrom([]int{6, 6, 6, 6, 8, 5, 0, 1, 16, 2, 7, 12}).Draw(t, "hwlen")
	}
	b := make([]byte, l)
	for j := range b {
		switch rapid.IntRange(0, 3).Draw(t, "hwbyte-kind") {
		case 0:
			// decimal-looking: the mac column has NUMERIC affinity
			b[j] = byte(rapid.SampledFrom([]int{0x00, 0x05, 0x10, 0x12, 0x99, 0x01}).Draw(t, "hwbyte-dec"))
		default:
			b[j] = rapid.Byte().Draw(t, "hwbyte")
		}
	}
	if l > 0 {
		b[l-1] = byte(i) // keep the clients distinct
		if l > 1 && rapid.Bool().Draw(t, "hw-e") {
			b[0] = 0x1e // "1e:05" style text
		}
	}
	return hex.EncodeToString(b)
}

// relativeHW derives a hardware address that shares its beginning with base
func relativeHW(t *rapid.T, base string) string {
	b, _ := hex.DecodeString(base)
	b = append([]byte(nil), b...)
	switch rapid.IntRange(0, 2).Draw(t, "rel-kind") {
	case 0: // longer
		if len(b) < 16 {
			n := rapid.IntRange(1, 16-len(b)).Draw(t, "rel-more")
			for i := 0; i < n; i++ {
				b = append(b, byte(rapid.SampledFrom([]int{0, 0, 1, 0x99, 0xff}).Draw(t, "rel-byte")))
			}
		}
	case 1: // shorter
		if len(b) > 0 {
			b = b[:rapid.IntRange(0, len(b)-1).Draw(t, "rel-less")]
		}
	default: // same length, another last byte
		if len(b) > 0 {
			b[len(b)-1] ^= byte(rapid.IntRange(1, 255).Draw(t, "rel-flip"))
		}
	}
	return hex.EncodeToString(b)
}

func genStep(t *rapid.T, nclients int, allowRestart bool) Step {
	k := rapid.IntRange(0, 9).Draw(t, "step-kind")
	if allowRestart && k == 0 {
		return Step{Kind: "restart"}
	}
	s := Step{Kind: "discover", Client: rapid.IntRange(0, nclients-1).Draw(t, "client")}
	if k >= 6 {
		s.Kind = "request"
	}
	s.Host = genHost(t)
	if rapid.IntRange(0, 5).Draw(t, "prelease") == 0 {
		// another plugin, listed earlier, has already put a lease time into the response
		s.PreLease = rapid.SampledFrom([]uint32{1, 30, 3600, 7200, 86400}).Draw(t, "prelease-s")
	}
	return s
}

// GenCase draws a range, clients and a history
func GenCase(mode string) func(t *rapid.T) Case {
	return func(t *rapid.T) Case {
		c := Case{Mode: mode}
		sizes := []uint32{2, 2, 3, 3, 4, 5, 8, 10, 63, 64, 65, 127, 128, 129, 200}
		c.N = rapid.SampledFrom(sizes).Draw(t, "n")
		maxStart := uint32(0xffffffff) - (c.N - 1)
		switch rapid.IntRange(0, 4).Draw(t, "startkind") {
		case 0:
			c.Start = 0
		case 1:
			c.Start = maxStart
		default:
			c.Start = rapid.Uint32Range(0, maxStart).Draw(t, "start")
		}
		c.Lease = rapid.SampledFrom([]string{"1s", "90s", "1h", "1h30m15.5s", "1ns", "0s", "24h", "1500ms"}).Draw(t, "lease")
		ncl := rapid.IntRange(1, 6).Draw(t, "nclients")
		if c.N <= 10 && rapid.Bool().Draw(t, "more-clients-than-addresses") {
			ncl = int(c.N) + rapid.IntRange(1, 3).Draw(t, "extra-clients")
		}
		seen := map[string]bool{}
		for i := 0; i < ncl; i++ {
			hw := genHW(t, i, mode)
			if len(c.Clients) > 0 && rapid.IntRange(0, 3).Draw(t, "hw-family") == 0 {
				// a relative of an earlier client: the same bytes with a longer or shorter hlen, or
				// another tail behind a common beginning (different addresses are different clients)
				hw = relativeHW(t, rapid.SampledFrom(c.Clients).Draw(t, "hw-of"))
			}
			if seen[hw] {
				continue // zero-length address can exist only once
			}
			seen[hw] = true
			c.Clients = append(c.Clients, hw)
		}
		max := 16
		if core.Thorough() {
			max = 40
		}
		if mode == "C03" {
			max = 10
			if core.Thorough() {
				max = 16
			}
		}
		n := rapid.IntRange(0, max).Draw(t, "nsteps")
		if c.N <= 10 && rapid.IntRange(0, 2).Draw(t, "walk-all") == 0 {
			// every client once, in order: exhausts small ranges
			for i := range c.Clients {
				c.Steps = append(c.Steps, Step{Kind: "discover", Client: i})
			}
		}
		for i := 0; i < n; i++ {
			c.Steps = append(c.Steps, genStep(t, len(c.Clients), true))
		}
		if (mode == "C02" && rapid.IntRange(0, 3).Draw(t, "conc") == 0) || (mode == "C03" && rapid.IntRange(0, 5).Draw(t, "conc3") == 0) {
			g := rapid.IntRange(4, 12).Draw(t, "goroutines")
			for i := 0; i < g; i++ {
				var s []Step
				nr := rapid.IntRange(1, 8).Draw(t, "conc-n")
				for j := 0; j < nr; j++ {
					st := genStep(t, len(c.Clients), false)
					if rapid.Bool().Draw(t, "same-client-storm") {
						st.Client = 0
					}
					s = append(s, st)
				}
				c.Conc = append(c.Conc, s)
			}
		}
		return c
	}
}

// GenExpiry draws short histories in which wall-clock time passes between a
// client's first lease and its renewal (the stored expiry must follow)
func GenExpiry(t *rapid.T) Case {
	c := Case{Mode: "C03", N: rapid.SampledFrom([]uint32{2, 3, 8}).Draw(t, "n")}
	c.Start = rapid.Uint32Range(0, 0xffffff00).Draw(t, "start")
	c.Lease = rapid.SampledFrom([]string{"1s", "90s", "1h", "0s", "1500ms"}).Draw(t, "lease")
	ncl := rapid.IntRange(1, 2).Draw(t, "nclients")
	for i := 0; i < ncl; i++ {
		c.Clients = append(c.Clients, genHW(t, i, "C02"))
	}
	if len(c.Clients) == 2 && c.Clients[0] == c.Clients[1] {
		c.Clients = c.Clients[:1]
	}
	for i := range c.Clients {
		c.Steps = append(c.Steps, Step{Kind: "discover", Client: i, Host: genHost(t)})
	}
	if rapid.Bool().Draw(t, "restart-before") {
		c.Steps = append(c.Steps, Step{Kind: "restart"})
	}
	c.Steps = append(c.Steps, Step{Kind: "wait"})
	if rapid.Bool().Draw(t, "full-pool") && len(c.Clients) >= 2 {
		if rapid.IntRange(0, 3).Draw(t, "short-lease") > 0 {
			c.Lease = rapid.SampledFrom([]string{"1s", "0s", "1500ms"}).Draw(t, "lease-short")
		}
		// the range is exactly as large as the set of clients bound so far, their leases (if short)
		// have run out, and somebody new asks: the range is still full
		c.N = uint32(len(c.Clients))
		if c.Start > 0xffffffff-c.N {
			c.Start = 0xffffffff - c.N
		}
		nc := genHW(t, 7, "C02")
		dup := false
		for _, x := range c.Clients {
			if x == nc {
				dup = true
			}
		}
		if !dup {
			c.Clients = append(c.Clients, nc)
			c.Steps = append(c.Steps, Step{Kind: "discover", Client: len(c.Clients) - 1, Host: genHost(t)})
			if rapid.Bool().Draw(t, "restart-mid") {
				c.Steps = append(c.Steps, Step{Kind: "restart"})
			}
		}
	}
	for i := range c.Clients {
		c.Steps = append(c.Steps, Step{Kind: rapid.SampledFrom([]string{"request", "discover"}).Draw(t, "renew-kind"), Client: i, Host: genHost(t)})
	}
	if rapid.Bool().Draw(t, "restart-after") {
		c.Steps = append(c.Steps, Step{Kind: "restart"}, Step{Kind: "discover", Client: 0})
	}
	return c
}
