// Package lease4 decides C02 (DHCPv4 dynamic leases: in range, one client per
// address, stable per client, exhaustion) and C03 (the lease database restores
// the same bindings at every crash point) by running generated request
// histories through the handler obtained from rangeplugin.Plugin.Setup4 on a
// real sqlite file, against a reference lease table.
package lease4

import (
	"database/sql"
	"encoding/hex"
	"fmt"
	"io"
	"net"
	"os"
	"path/filepath"
	"sort"
	"strconv"
	"strings"
	"sync"
	"sync/atomic"
	"syscall"
	"time"

	"github.com/coredhcp/coredhcp/handler"
	rangeplugin "github.com/coredhcp/coredhcp/plugins/range"
	"github.com/insomniacslk/dhcp/dhcpv4"
	"verif/harness/core"
	"verif/harness/gen"
)

// Step is one step of a history
type Step struct {
	// Kind: discover | request | restart | wait (2.1 s of wall-clock time pass)
	Kind   string `json:"kind"`
	Client int    `json:"client,omitempty"`
	// Host: hostname option bytes (hex); empty = no option 12
	Host string `json:"host,omitempty"`
	// PreLease: seconds; if not 0 the response handed to the plugin already carries a lease time
	// option with this value, as it does when lease_time is listed before range
	PreLease uint32 `json:"prelease,omitempty"`
}

// Case is a range, a set of clients and a history
type Case struct {
	Mode    string   `json:"mode"` // C02 | C03
	Start   uint32   `json:"start"`
	N       uint32   `json:"n"`
	Lease   string   `json:"lease"`
	Clients []string `json:"clients"` // hardware addresses, hex, 0..16 bytes
	Steps   []Step   `json:"steps"`
	// Conc: per goroutine request lists (C02), run after Steps on the same handler
	Conc [][]Step `json:"conc,omitempty"`
}

func u32ip(v uint32) net.IP { return net.IPv4(byte(v>>24), byte(v>>16), byte(v>>8), byte(v)).To4() }

func ipu32(ip net.IP) (uint32, bool) {
	x := ip.To4()
	if x == nil {
		return 0, false
	}
	return uint32(x[0])<<24 | uint32(x[1])<<16 | uint32(x[2])<<8 | uint32(x[3]), true
}

var (
	scratchOnce sync.Once
	scratchDir  string
	caseSeq     atomic.Int64
)

// scratch returns a per-process directory for sqlite files: tmpfs when there
// is one (the plugin fsyncs every insert), else the driver's work directory
func scratch() string {
	scratchOnce.Do(func() {
		for _, base := range []string{"/dev/shm", os.Getenv("VERIF_WORK"), os.TempDir()} {
			if base == "" {
				continue
			}
			d, err := os.MkdirTemp(base, "verif-lease4-")
			if err == nil {
				scratchDir = d
				return
			}
		}
	})
	return scratchDir
}

// Cleanup removes the scratch directory (called by TestMain)
func Cleanup() {
	if scratchDir != "" {
		os.RemoveAll(scratchDir)
	}
}

func (c *Case) wire(client int, kind string, host string, xid uint32) []byte {
	hw, _ := hex.DecodeString(c.Clients[client])
	p := gen.Pkt4{Op: 1, HType: 1, HLen: uint8(len(hw)), Xid: xid, CHAddr: hex.EncodeToString(hw)}
	mt := byte(1)
	if kind == "request" {
		mt = 3
	}
	p.Opts = append(p.Opts, gen.Opt4{Code: 53, Hex: hex.EncodeToString([]byte{mt})})
	if host != "" {
		p.Opts = append(p.Opts, gen.Opt4{Code: 12, Hex: host})
	}
	p.Opts = append(p.Opts, gen.Opt4{Code: 55, Hex: "0103060f"})
	return p.Bytes()
}

type reply struct {
	served bool
	ip     uint32
	viol   *core.Violation
	// promised: the lease time the reply tells the client (what the stored expiry must cover)
	promised    time.Duration
	hasPromised bool
}

// preLease is the lease time the next response stub carries before the plugin sees it (0: none)
var preLease atomic.Uint32

// ask sends one request through the handler and checks the per-reply predicates
func (c *Case) ask(h handler.Handler4, client int, kind, host string, xid uint32) reply {
	req, stub, ok := gen.Stub4(c.wire(client, kind, host, xid))
	if !ok {
		return reply{viol: core.Violate(c.Mode+"/harness", "harness built a request the server would not pass to the chain")}
	}
	var resp *dhcpv4.DHCPv4
	var stop bool
	if pl := preLease.Swap(0); pl != 0 {
		stub.UpdateOption(dhcpv4.OptIPAddressLeaseTime(time.Duration(pl) * time.Second))
	}
	returned, pan := core.Call(20*time.Second, func() { resp, stop = h(req, stub) })
	if pan != nil {
		panic(pan)
	}
	if !returned {
		return reply{viol: core.Violate("C02/wedged", "the handler did not return within 20 s")}
	}
	if resp == nil {
		if !stop {
			return reply{viol: core.Violate("C02/nil-without-stop", "handler returned nil without stop")}
		}
		return reply{}
	}
	if stop {
		return reply{viol: core.Violate("C02/stops-chain-with-reply", "handler served client %s but stopped the chain", c.Clients[client])}
	}
	ip, ok4 := ipu32(resp.YourIPAddr)
	if !ok4 || ip < c.Start || ip > c.Start+c.N-1 {
		return reply{viol: core.Violate("C02/address-outside-range", "client %s was given %v, outside [%s,%s]", c.Clients[client], resp.YourIPAddr, u32ip(c.Start), u32ip(c.Start+c.N-1))}
	}
	d, _ := time.ParseDuration(c.Lease)
	want := d.Round(time.Second)
	got := resp.IPAddressLeaseTime(-1)
	if got != want && c.Mode != "C03" {
		return reply{viol: core.Violate("C02/lease-time", "client %s: lease time option is %v, configured %s (rounded %v)", c.Clients[client], got, c.Lease, want)}
	}
	// what goes on the wire must say the same
	back, err := dhcpv4.FromBytes(resp.ToBytes())
	if err != nil {
		return reply{viol: core.Violate("C02/reply-does-not-parse", "reply does not parse: %v", err)}
	}
	if bip, _ := ipu32(back.YourIPAddr); bip != ip {
		return reply{viol: core.Violate("C02/address-outside-range", "yiaddr changes on the wire: %v vs %v", back.YourIPAddr, resp.YourIPAddr)}
	}
	// C03 goes on with whatever lease time the client was told: that is the promise the stored
	// expiry has to cover
	return reply{served: true, ip: ip, promised: got, hasPromised: got >= 0}
}

var (
	opens   atomic.Int64
	fdLimit = func() int64 {
		var l syscall.Rlimit
		if syscall.Getrlimit(syscall.RLIMIT_NOFILE, &l) != nil {
			return 1024
		}
		return int64(l.Cur)
	}()
)

// fdBudgetLeft: every Setup4 leaves a sql.DB open for the life of the process
// (by design of the plugin), so the number of cases per process is bounded
func fdBudgetLeft() bool { return opens.Load()+300 < fdLimit }

func (c *Case) setup(db string) (handler.Handler4, error) {
	opens.Add(1)
	return rangeplugin.Plugin.Setup4(db, u32ip(c.Start).String(), u32ip(c.Start+c.N-1).String(), c.Lease)
}

type model struct {
	bound   map[int]uint32 // client -> address
	owner   map[uint32]int // address -> client
	promise map[int]time.Time
	// promisedFor: the lease time of the reply that made the promise, when it is not the configured one
	promisedFor map[int]time.Duration
}

// notePromise records the lease time a reply carried when it is longer than the configured one
// (shorter ones are covered by the configured duration the check uses by default)
func (m *model) notePromise(cl int, r reply, leaseDur time.Duration) {
	delete(m.promisedFor, cl)
	if r.hasPromised && r.promised > leaseDur.Round(time.Second) {
		m.promisedFor[cl] = r.promised
	}
}

// parseStoredMAC is the harness's own reading of the mac column: what
// net.HardwareAddr.String() writes (colon-separated hex bytes, empty for a
// zero-length address); the column has NUMERIC affinity, so an all-decimal
// single byte comes back as an integer without its leading zero
func parseStoredMAC(v interface{}) ([]byte, error) {
	var s string
	switch x := v.(type) {
	case int64:
		s = strconv.FormatInt(x, 10)
	case float64:
		s = strconv.FormatFloat(x, 'f', -1, 64)
	case []byte:
		s = string(x)
	case string:
		s = x
	case nil:
		return nil, fmt.Errorf("NULL mac")
	default:
		return nil, fmt.Errorf("mac column of type %T", v)
	}
	if s == "" {
		return []byte{}, nil
	}
	var out []byte
	for _, g := range strings.Split(s, ":") {
		if len(g) < 1 || len(g) > 2 {
			return nil, fmt.Errorf("bad group %q in %q", g, s)
		}
		b, err := strconv.ParseUint(g, 16, 8)
		if err != nil {
			return nil, fmt.Errorf("bad group %q in %q", g, s)
		}
		out = append(out, byte(b))
	}
	return out, nil
}

func copyFile(src, dst string) error {
	in, err := os.Open(src)
	if err != nil {
		return err
	}
	defer in.Close()
	out, err := os.Create(dst)
	if err != nil {
		return err
	}
	if _, err := io.Copy(out, in); err != nil {
		out.Close()
		return err
	}
	return out.Close()
}

// crashPoint copies the database as it is now, reads it directly, restarts the
// plugin on the copy and probes every known client
func (c *Case) crashPoint(db string, m *model, step int, leaseDur time.Duration) *core.Violation {
	cp := fmt.Sprintf("%s.crash%d", db, step)
	if err := copyFile(db, cp); err != nil {
		return nil // nothing written yet
	}
	for _, suf := range []string{"-journal", "-wal", "-shm"} {
		if _, err := os.Stat(db + suf); err == nil {
			_ = copyFile(db+suf, cp+suf)
		}
	}
	defer func() {
		for _, suf := range []string{"", "-journal", "-wal", "-shm"} {
			os.Remove(cp + suf)
		}
	}()
	// (1) direct read
	sdb, err := sql.Open("sqlite3", "file:"+cp)
	if err != nil {
		return core.Violate("C03/harness", "cannot open copy: %v", err)
	}
	rows, err := sdb.Query("select mac, ip, expiry from leases4")
	if err != nil {
		sdb.Close()
		return core.Violate("C03/database-unreadable", "step %d: %v", step, err)
	}
	type row struct {
		ip     uint32
		expiry int64
	}
	got := map[string]row{}
	ips := map[uint32]string{}
	for rows.Next() {
		var mac interface{}
		var ip string
		var expiry sql.NullInt64
		if err := rows.Scan(&mac, &ip, &expiry); err != nil {
			rows.Close()
			sdb.Close()
			return core.Violate("C03/database-unreadable", "step %d: scan: %v", step, err)
		}
		hw, err := parseStoredMAC(mac)
		if err != nil {
			rows.Close()
			sdb.Close()
			return core.Violate("C03/stored-mac-unreadable", "step %d: %v", step, err)
		}
		v, ok := ipu32(net.ParseIP(ip))
		if !ok {
			rows.Close()
			sdb.Close()
			return core.Violate("C03/stored-ip-unreadable", "step %d: ip column %q", step, ip)
		}
		k := hex.EncodeToString(hw)
		if _, dup := got[k]; dup {
			rows.Close()
			sdb.Close()
			return core.Violate("C03/binding-duplicated", "step %d: two rows for hardware address %s", step, k)
		}
		if o, dup := ips[v]; dup {
			rows.Close()
			sdb.Close()
			return core.Violate("C03/binding-duplicated", "step %d: address %s stored for %s and %s", step, u32ip(v), o, k)
		}
		got[k] = row{v, expiry.Int64}
		ips[v] = k
	}
	rows.Close()
	sdb.Close()
	for _, cl := range sortedClients(m.bound) {
		ip := m.bound[cl]
		k := c.Clients[cl]
		r, ok := got[k]
		if !ok {
			return core.Violate("C03/binding-lost", "step %d: client %s was given %s but the database has no row for it (rows: %d)", step, k, u32ip(ip), len(got))
		}
		if r.ip != ip {
			return core.Violate("C03/binding-changed", "step %d: client %s was given %s, database says %s", step, k, u32ip(ip), u32ip(r.ip))
		}
		if t, ok := m.promise[cl]; ok {
			ld := leaseDur
			if d, ok := m.promisedFor[cl]; ok {
				ld = d
			}
			low := t.Add(ld).Unix() - 1
			if r.expiry < low {
				return core.Violate("C03/expiry-too-early", "step %d: client %s was promised a lease until >= %d, stored expiry %d", step, k, low, r.expiry)
			}
		}
	}
	if len(got) != len(m.bound) {
		return core.Violate("C03/binding-extra", "step %d: database has %d rows, %d bindings were handed out", step, len(got), len(m.bound))
	}
	// (2) restart on the copy
	h2, err := c.setup(cp)
	if err != nil {
		return core.Violate("C03/restart-fails", "step %d: restarting on the database written so far fails: %v", step, err)
	}
	// (3) probes
	xid := uint32(0x70000000 + step*100)
	for _, cl := range sortedClients(m.bound) {
		ip := m.bound[cl]
		xid++
		r := c.ask(h2, cl, "discover", "", xid)
		if r.viol != nil {
			return r.viol
		}
		if !r.served {
			return core.Violate("C03/binding-lost", "step %d: after restart client %s (bound to %s) gets no reply", step, c.Clients[cl], u32ip(ip))
		}
		if r.ip != ip {
			return core.Violate("C03/binding-changed", "step %d: after restart client %s gets %s, was given %s", step, c.Clients[cl], u32ip(r.ip), u32ip(ip))
		}
	}
	// a fresh client must get an address bound to nobody (or nothing when full)
	fresh := *c
	fresh.Clients = append(append([]string(nil), c.Clients...), "02feedfacecafe01")
	r := fresh.ask(h2, len(fresh.Clients)-1, "discover", "", xid+1)
	if r.viol != nil {
		return r.viol
	}
	if r.served {
		if o, taken := m.owner[r.ip]; taken {
			return core.Violate("C03/binding-duplicated", "step %d: after restart a new client is given %s, which is bound to %s", step, u32ip(r.ip), c.Clients[o])
		}
	} else if uint32(len(m.bound)) < c.N {
		return core.Violate("C03/restart-loses-capacity", "step %d: after restart a new client is refused although only %d of %d addresses are bound", step, len(m.bound), c.N)
	}
	return nil
}

// Exec runs one case
func Exec(c Case) (res core.Result) {
	defer func() {
		if r := recover(); r != nil {
			core.HarnessPanic(r)
			res = core.Result{Viol: core.Violate(c.Mode+"/panic", "range plugin panicked: %v", r)}
		}
		if res.Viol != nil && strings.HasSuffix(res.Viol.Signature, "/wedged") {
			res.Viol.Signature = c.Mode + "/wedged"
		}
		if res.Viol != nil && len(res.Viol.Signature) >= 3 && res.Viol.Signature[:3] != c.Mode {
			res = core.Result{Classes: []string{"abandoned:" + res.Viol.Signature[:3]}}
		}
	}()
	leaseDur, err := time.ParseDuration(c.Lease)
	if err != nil || len(c.Clients) == 0 {
		res.Skipped = "bad-case"
		return
	}
	if !fdBudgetLeft() {
		res.Skipped = "fd-limit"
		return
	}
	db := filepath.Join(scratch(), fmt.Sprintf("case-%d.sqlite", caseSeq.Add(1)))
	defer func() {
		for _, suf := range []string{"", "-journal", "-wal", "-shm"} {
			os.Remove(db + suf)
		}
	}()
	h, err := c.setup(db)
	if err != nil && leaseDur.Round(time.Second) < time.Second {
		// a lease time that is 0 seconds on the wire: the plugin may refuse it at start-up (the
		// property speaks about the configured lease time of configurations that are accepted)
		res.Classes = []string{"sub-second-lease-refused"}
		return
	}
	if err != nil {
		res.Viol = core.Violate(c.Mode+"/setup-rejects-valid-config", "Setup4(%s, %s..+%d, %s): %v", db, u32ip(c.Start), c.N, c.Lease, err)
		return
	}
	m := &model{bound: map[int]uint32{}, owner: map[uint32]int{}, promise: map[int]time.Time{}, promisedFor: map[int]time.Duration{}}
	var sawRepeat, sawRestart, sawFull, sawOddLen, sawNumHost bool
	xid := uint32(1)
	for i, st := range c.Steps {
		if st.Kind == "wait" {
			// lets wall-clock time pass, so that a renewal promises a later lease end than the stored one
			time.Sleep(2100 * time.Millisecond)
			continue
		}
		if st.Kind == "restart" {
			h2, err := c.setup(db)
			if err != nil {
				res.Viol = core.Violate("C03/restart-fails", "step %d: restart on the plugin's own database fails: %v", i, err)
				return
			}
			h = h2
			sawRestart = true
			continue
		}
		if st.Client < 0 || st.Client >= len(c.Clients) {
			continue
		}
		xid++
		before := time.Now()
		preLease.Store(st.PreLease)
		r := c.ask(h, st.Client, st.Kind, st.Host, xid)
		preLease.Store(0)
		if r.viol != nil {
			r.viol.Message = fmt.Sprintf("step %d: %s", i, r.viol.Message)
			res.Viol = r.viol
			return
		}
		prev, known := m.bound[st.Client]
		full := uint32(len(m.bound)) == c.N
		switch {
		case !r.served && known:
			res.Viol = core.Violate("C02/bound-client-refused", "step %d: client %s is bound to %s but got no reply", i, c.Clients[st.Client], u32ip(prev))
			return
		case !r.served && !full:
			res.Viol = core.Violate("C02/refused-while-not-full", "step %d: new client %s got no reply although only %d of %d addresses are bound", i, c.Clients[st.Client], len(m.bound), c.N)
			return
		case !r.served:
			sawFull = true
		case known && r.ip != prev:
			res.Viol = core.Violate("C02/address-not-stable", "step %d: client %s was first given %s, now %s", i, c.Clients[st.Client], u32ip(prev), u32ip(r.ip))
			return
		case known:
			sawRepeat = true
			m.promise[st.Client] = before
			m.notePromise(st.Client, r, leaseDur)
		default:
			if o, taken := m.owner[r.ip]; taken {
				res.Viol = core.Violate("C02/address-bound-twice", "step %d: new client %s was given %s, which is bound to client %s", i, c.Clients[st.Client], u32ip(r.ip), c.Clients[o])
				if c.Mode == "C03" {
					// that is C02's business; C03's is what the database written so far says
					// about it: it must still restore (one binding per address)
					m.bound[st.Client] = r.ip
					if v := c.crashPoint(db, m, i, leaseDur); v != nil {
						res.Viol = v
					}
				}
				return
			}
			m.bound[st.Client] = r.ip
			m.owner[r.ip] = st.Client
			m.promise[st.Client] = before
			m.notePromise(st.Client, r, leaseDur)
		}
		if l := len(c.Clients[st.Client]) / 2; l != 6 && r.served {
			sawOddLen = true
		}
		if st.Host != "" && r.served && looksNumeric(st.Host) {
			sawNumHost = true
		}
		if c.Mode == "C03" {
			if v := c.crashPoint(db, m, i, leaseDur); v != nil {
				res.Viol = v
				return
			}
		}
	}
	conc := false
	if len(c.Conc) > 0 && c.Mode == "C03" {
		conc = true
		if v := c.concurrentThenRestart(h, db, m); v != nil {
			res.Viol = v
			return
		}
	}
	if len(c.Conc) > 0 && c.Mode == "C02" {
		conc = true
		if v := c.runConcurrent(h, m); v != nil {
			res.Viol = v
			return
		}
		if uint32(len(m.bound)) == c.N {
			sawFull = true
		}
	}
	sawWait := false
	for _, st := range c.Steps {
		if st.Kind == "wait" {
			sawWait = true
		}
	}
	switch c.Mode {
	case "C02":
		res.NonTrivial = sawRepeat && (sawRestart || sawFull || conc)
	case "C03":
		res.NonTrivial = sawOddLen || sawNumHost || (sawWait && sawRepeat) || conc
	}
	if sawWait && sawRepeat {
		res.Classes = append(res.Classes, "renewal-after-time-passed")
	}
	if sawRepeat {
		res.Classes = append(res.Classes, "repeat-client")
	}
	if sawRestart {
		res.Classes = append(res.Classes, "restart")
	}
	if sawFull {
		res.Classes = append(res.Classes, "exhausted")
	}
	if sawOddLen {
		res.Classes = append(res.Classes, "chaddr-len-not-6")
	}
	if sawNumHost {
		res.Classes = append(res.Classes, "numeric-looking-hostname")
	}
	if conc {
		res.Classes = append(res.Classes, "concurrent")
	}
	return
}

// concurrentThenRestart (C03): the goroutines' requests run concurrently, then the database is examined
// and reopened. Whatever the interleaving, a one-at-a-time order leaves one row per client and per address,
// every reply's binding is in the database, and a restart gives every client the address of its row.
func (c *Case) concurrentThenRestart(h handler.Handler4, db string, m *model) *core.Violation {
	type obs struct {
		client int
		ip     uint32
	}
	var (
		wg    sync.WaitGroup
		mu    sync.Mutex
		all   []obs
		start = make(chan struct{})
		abort = make(chan struct{})
		once  sync.Once
		pviol *core.Violation
	)
	for g := range c.Conc {
		wg.Add(1)
		go func(g int) {
			defer wg.Done()
			defer func() {
				if r := recover(); r != nil {
					core.HarnessPanic(r)
					mu.Lock()
					if pviol == nil {
						pviol = core.Violate("C03/panic", "range plugin panicked in concurrent phase: %v", r)
					}
					mu.Unlock()
					once.Do(func() { close(abort) })
				}
			}()
			<-start
			for j, st := range c.Conc[g] {
				if st.Client < 0 || st.Client >= len(c.Clients) || st.Kind == "restart" || st.Kind == "wait" {
					continue
				}
				r := c.ask(h, st.Client, st.Kind, st.Host, uint32(0x60000000+g*1000+j))
				if r.viol == nil && r.served {
					mu.Lock()
					all = append(all, obs{st.Client, r.ip})
					mu.Unlock()
				}
			}
		}(g)
	}
	close(start)
	if !core.WaitTimeout(&wg, abort, 60*time.Second) || pviol != nil {
		if pviol != nil {
			return pviol
		}
		return core.Violate("C03/wedged", "concurrent phase: handler calls did not return within 60 s")
	}
	cp := db + ".conc"
	if err := copyFile(db, cp); err != nil {
		return nil
	}
	defer os.Remove(cp)
	sdb, err := sql.Open("sqlite3", "file:"+cp)
	if err != nil {
		return nil
	}
	rows, err := sdb.Query("select mac, ip from leases4")
	if err != nil {
		sdb.Close()
		return core.Violate("C03/database-unreadable", "after the concurrent phase: %v", err)
	}
	byMAC, byIP := map[string]uint32{}, map[uint32]string{}
	for rows.Next() {
		var mac interface{}
		var ip string
		if err := rows.Scan(&mac, &ip); err != nil {
			continue
		}
		hw, perr := parseStoredMAC(mac)
		v, ok := ipu32(net.ParseIP(ip))
		if perr != nil || !ok {
			rows.Close()
			sdb.Close()
			return core.Violate("C03/stored-mac-unreadable", "after the concurrent phase: row (%v, %q) unreadable", mac, ip)
		}
		k := hex.EncodeToString(hw)
		if prev, dup := byMAC[k]; dup && prev != v {
			rows.Close()
			sdb.Close()
			return core.Violate("C03/binding-duplicated", "after concurrent requests the database holds two rows for hardware address %s (%s and %s)", k, u32ip(prev), u32ip(v))
		}
		if o, dup := byIP[v]; dup && o != k {
			rows.Close()
			sdb.Close()
			return core.Violate("C03/binding-duplicated", "after concurrent requests address %s is stored for %s and %s", u32ip(v), o, k)
		}
		byMAC[k], byIP[v] = v, k
	}
	rows.Close()
	sdb.Close()
	for _, o := range all {
		k := c.Clients[o.client]
		if got, ok := byMAC[k]; !ok || got != o.ip {
			return core.Violate("C03/binding-lost", "a concurrent request of client %s was answered with %s but the database says %v (present %v)", k, u32ip(o.ip), u32ip(got), ok)
		}
	}
	h2, err := c.setup(cp)
	if err != nil {
		return core.Violate("C03/restart-fails", "restart after the concurrent phase fails: %v", err)
	}
	seen := map[int]bool{}
	for i, o := range all {
		if seen[o.client] {
			continue
		}
		seen[o.client] = true
		r := c.ask(h2, o.client, "discover", "", uint32(0x61000000+i))
		if r.viol != nil {
			return r.viol
		}
		if !r.served || r.ip != byMAC[c.Clients[o.client]] {
			return core.Violate("C03/binding-changed", "after the concurrent phase and a restart client %s gets %v (served %v), its row says %s", c.Clients[o.client], u32ip(r.ip), r.served, u32ip(byMAC[c.Clients[o.client]]))
		}
		m.bound[o.client], m.owner[r.ip] = r.ip, o.client
	}
	return nil
}

func sortedClients(m map[int]uint32) []int {
	r := make([]int, 0, len(m))
	for k := range m {
		r = append(r, k)
	}
	sort.Ints(r)
	return r
}

func looksNumeric(hexHost string) bool {
	b, _ := hex.DecodeString(hexHost)
	if len(b) == 0 {
		return false
	}
	_, err := strconv.ParseFloat(strings.TrimSpace(string(b)), 64)
	return err == nil || strings.HasPrefix(string(b), "0x")
}

// runConcurrent sends the goroutines' requests through the shared handler and
// checks the multiset of replies against invariants every serial order satisfies
func (c *Case) runConcurrent(h handler.Handler4, m *model) *core.Violation {
	type obs struct {
		client int
		r      reply
	}
	var (
		wg    sync.WaitGroup
		mu    sync.Mutex
		all   []obs
		pviol *core.Violation
		start = make(chan struct{})
		abort = make(chan struct{})
		once  sync.Once
	)
	for g := range c.Conc {
		wg.Add(1)
		go func(g int) {
			defer wg.Done()
			defer func() {
				if r := recover(); r != nil {
					core.HarnessPanic(r)
					mu.Lock()
					if pviol == nil {
						pviol = core.Violate("C02/panic", "range plugin panicked in concurrent phase: %v", r)
					}
					mu.Unlock()
					once.Do(func() { close(abort) })
				}
			}()
			<-start
			for j, st := range c.Conc[g] {
				if st.Client < 0 || st.Client >= len(c.Clients) || st.Kind == "restart" {
					continue
				}
				r := c.ask(h, st.Client, st.Kind, st.Host, uint32(0x50000000+g*1000+j))
				mu.Lock()
				all = append(all, obs{st.Client, r})
				mu.Unlock()
			}
		}(g)
	}
	close(start)
	finished := core.WaitTimeout(&wg, abort, 60*time.Second)
	mu.Lock()
	pv := pviol
	mu.Unlock()
	if pv != nil {
		return pv
	}
	if !finished {
		return core.Violate("C02/wedged", "concurrent phase: handler calls did not return within 60 s")
	}
	knownBefore := map[int]bool{}
	for cl := range m.bound {
		knownBefore[cl] = true
	}
	refusedUnknown := false
	refused, servedIn := map[int]bool{}, map[int]bool{}
	for _, o := range all {
		if o.r.viol == nil && !knownBefore[o.client] {
			if o.r.served {
				servedIn[o.client] = true
			} else {
				refused[o.client] = true
			}
		}
	}
	for cl := range refused {
		if servedIn[cl] {
			// no address is ever released: refused-then-served and served-then-refused are both impossible serially
			return core.Violate("C02/bound-client-refused", "concurrent: client %s was both served and refused in one phase", c.Clients[cl])
		}
	}
	for _, o := range all {
		if o.r.viol != nil {
			o.r.viol.Message = "concurrent: " + o.r.viol.Message
			return o.r.viol
		}
		if !o.r.served {
			if knownBefore[o.client] {
				return core.Violate("C02/bound-client-refused", "concurrent: client %s was bound before the phase but got no reply", c.Clients[o.client])
			}
			refusedUnknown = true
			continue
		}
		if prev, ok := m.bound[o.client]; ok {
			if prev != o.r.ip {
				return core.Violate("C02/address-not-stable", "concurrent: client %s was given %s and %s", c.Clients[o.client], u32ip(prev), u32ip(o.r.ip))
			}
			continue
		}
		if other, taken := m.owner[o.r.ip]; taken {
			return core.Violate("C02/address-bound-twice", "concurrent: %s given to client %s and client %s", u32ip(o.r.ip), c.Clients[other], c.Clients[o.client])
		}
		m.bound[o.client] = o.r.ip
		m.owner[o.r.ip] = o.client
	}
	// a client refused during the phase and served in it as well: only legal if it was served first; we
	// cannot order the two observations, but a refusal implies the range is full at the end
	if refusedUnknown && uint32(len(m.bound)) != c.N {
		return core.Violate("C02/refused-while-not-full", "concurrent: an unknown client was refused although only %d of %d addresses are bound at the end", len(m.bound), c.N)
	}
	return nil
}
