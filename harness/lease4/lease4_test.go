package lease4

import (
	"os"
	"testing"

	"verif/harness/core"
)

func TestMain(m *testing.M) {
	rc := m.Run()
	Cleanup()
	os.Exit(rc)
}

func TestC02(t *testing.T)       { core.Run(t, "C02", GenCase("C02"), Exec) }
func TestC03(t *testing.T)       { core.Run(t, "C03", GenCase("C03"), Exec) }
func TestC03Expiry(t *testing.T) { core.Run(t, "C03", GenExpiry, Exec) }
