package lease4

import (
	"os"
	"testing"

	"pgregory.net/rapid"
	"verif/harness/core"
)

func TestMain(m *testing.M) {
	rc := m.Run()
	Cleanup()
	os.Exit(rc)
}

func TestC02(t *testing.T)       { core.Run(t, "C02", GenCase("C02"), Exec) }
func TestC03(t *testing.T)       { core.Run(t, "C03", GenCase("C03"), Exec) }
func TestC03Expiry(t *testing.T) { core.Run(t, "C03", GenExpiry, Exec) }

// the same histories (lease, 2.1 s of wall-clock time, the same client again, restarts around it)
// under C02's oracle: same address and the configured lease time however much time went by
func TestC02Expiry(t *testing.T) {
	core.Run(t, "C02", func(t *rapid.T) Case { c := GenExpiry(t); c.Mode = "C02"; return c }, Exec)
}
