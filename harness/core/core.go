// Package core is the shared plumbing of every engine: a case is plain data,
// gen draws it from rapid, exec runs it against the real code and an explicit
// oracle. core wires the three together, records what was actually explored
// (for evidence/<id>.json), matches violations against known_findings.json and
// saves the (shrunk) failing case as a replay file.
package core

import (
	"runtime"
	"encoding/binary"
	"encoding/json"
	"fmt"
	"hash/fnv"
	"io"
	"os"
	"path/filepath"
	"sort"
	"strconv"
	"strings"
	"sync"
	"testing"
	"time"

	"github.com/coredhcp/coredhcp/logger"
	"github.com/sirupsen/logrus"
	"pgregory.net/rapid"
)

// Violation is one failed oracle.
type Violation struct {
	// Signature is a stable string naming property, sub-oracle and failure
	// class, e.g. "C10/dualstack/served-from-other-protocol-table". It is what
	// known_findings.json matches on.
	Signature string `json:"signature"`
	Message   string `json:"message"`
}

func Violate(sig, format string, args ...interface{}) *Violation {
	return &Violation{Signature: sig, Message: fmt.Sprintf(format, args...)}
}

// Result is what exec reports about one case.
type Result struct {
	NonTrivial bool
	Classes    []string
	Viol       *Violation
	// Skipped marks a case that could not be run for an environmental reason
	// (e.g. inotify instance limit); it is counted but never a violation.
	Skipped string
}

type knownFinding struct {
	Property  string `json:"property"`
	Signature string `json:"signature"`
	Status    string `json:"status"`
	WhatFails string `json:"what_fails"`
}

// Collector accumulates the statistics of one property in one process.
type Collector struct {
	mu         sync.Mutex
	Property   string
	evals      int64
	nontrivial int64
	skipped    map[string]int64
	classes    map[string]int64
	hashes     map[uint64]struct{}
	samples    []json.RawMessage
	known      map[string]knownFinding
	knownHits  map[string]int64
	extra      map[string]interface{}
	failed     bool
	viol       *Violation
	replay     string
	replayLen  int
	exhaustive bool
	test       string
	regress    int64
	wedged     bool
}

var (
	collectors   = map[string]*Collector{}
	collectorsMu sync.Mutex
)

func Env(name, def string) string {
	if v := os.Getenv(name); v != "" {
		return v
	}
	return def
}

func EnvInt(name string, def int) int {
	if v := os.Getenv(name); v != "" {
		if n, err := strconv.Atoi(v); err == nil {
			return n
		}
	}
	return def
}

// Tier is "quick" or "thorough".
func Tier() string { return Env("VERIF_TIER", "quick") }

// FirstShard tells whether this process is shard 0 of its test (enumerations run once)
func FirstShard() bool {
	s := os.Getenv("VERIF_SHARD")
	return s == "" || strings.HasSuffix(s, ".0") || !strings.Contains(s, ".")
}

// Call runs f in its own goroutine and reports whether it returned within d.
// A handler that never returns (a lock taken twice, a lock left behind by an
// earlier panic) must end the case, not hang the check; the goroutine is leaked.
func Call(d time.Duration, f func()) (returned bool, panicked interface{}) {
	done := make(chan interface{}, 1)
	go func() {
		defer func() {
			if r := recover(); r != nil {
				if p, ok := r.(Panicked); ok {
					done <- p // already classified by whoever raised it
					return
				}
				_, fatal := r.(FatalExit) // raised by the harness's exit hook on behalf of the code under test
				done <- Panicked{Value: r, Harness: !fatal && panicFromHarness()}
				return
			}
			done <- nil
		}()
		f()
	}()
	select {
	case p := <-done:
		return true, p
	case <-time.After(d):
		return false, nil
	}
}

// Panicked is a recovered panic together with where it came from; Call returns it in place
// of the bare value, so that a caller that raises it again does not hide its origin
type Panicked struct {
	Value   interface{}
	Harness bool
}

func (p Panicked) String() string { return fmt.Sprint(p.Value) }
func (p Panicked) Error() string  { return fmt.Sprint(p.Value) }

// panicFromHarness inspects the stack of the goroutine that is panicking right now (call it
// from a deferred function): true if the innermost frame that belongs to a module - skipping
// the runtime and the standard library - is harness code, i.e. the harness itself is buggy
func panicFromHarness() bool {
	buf := make([]byte, 1<<16)
	lines := strings.Split(string(buf[:runtime.Stack(buf, false)]), "\n")
	seen := false
	for _, l := range lines {
		if strings.HasPrefix(l, "\t") || l == "" {
			continue
		}
		if !seen {
			seen = strings.HasPrefix(l, "panic(")
			continue
		}
		fn := l
		if i := strings.Index(fn, "("); i > 0 {
			fn = fn[:i]
		}
		switch {
		case strings.HasPrefix(fn, "verif/harness/"):
			return true
		case strings.Contains(fn, "/") && strings.Contains(strings.SplitN(fn, "/", 2)[0], "."):
			return false // github.com/..., golang.org/..., pgregory.net/...: code under test or a library
		}
	}
	return false
}

// HarnessPanic must be called first thing where a panic is recovered and turned into a
// finding: if the panic was raised by the harness itself it is a bug of the machinery, not a
// property of the code under test, and the process ends without a verdict (the driver
// reports a machinery error, exit 2)
func HarnessPanic(r interface{}) {
	harness := false
	switch x := r.(type) {
	case Panicked:
		harness = x.Harness
	case FatalExit:
	default:
		harness = panicFromHarness()
	}
	if harness {
		buf := make([]byte, 1<<16)
		fmt.Fprintf(os.Stderr, "HARNESS-BUG: panic raised by the harness itself: %v\n%s\n", r, buf[:runtime.Stack(buf, false)])
		os.Exit(70)
	}
}

// WaitTimeout waits for wg, but gives up when abort is closed (a goroutine
// reported a panic: the others may be parked on a lock the panicking one still
// holds) or after d. It reports whether every goroutine finished.
func WaitTimeout(wg *sync.WaitGroup, abort <-chan struct{}, d time.Duration) bool {
	done := make(chan struct{})
	go func() { wg.Wait(); close(done) }()
	select {
	case <-done:
		return true
	case <-abort:
		// give the others a moment to finish on their own
		select {
		case <-done:
			return true
		case <-time.After(200 * time.Millisecond):
			return false
		}
	case <-time.After(d):
		return false
	}
}

// Thorough tells whether the thorough tier is running.
func Thorough() bool { return Tier() == "thorough" }

// FatalExit is the panic value that replaces os.Exit when the code under test calls
// log.Fatal: a handler that does so takes the server down just as a panic does, and the
// harness must survive it to report it
type FatalExit struct{ Code int }

func (f FatalExit) Error() string {
	return fmt.Sprintf("log.Fatal called: the server process exits with status %d", f.Code)
}
func (f FatalExit) String() string { return f.Error() }

func init() {
	logger.GetLogger("verif").Logger.ExitFunc = func(code int) { panic(FatalExit{code}) }
}

// Quiet silences the logging of the code under test (public logger API).
func Quiet() {
	l := logger.GetLogger("verif").Logger
	l.SetOutput(io.Discard)
	l.SetLevel(logrus.PanicLevel)
}

// For returns the collector of a property (one per process and property).
func For(property string) *Collector {
	collectorsMu.Lock()
	defer collectorsMu.Unlock()
	if c, ok := collectors[property]; ok {
		return c
	}
	c := &Collector{
		Property:  property,
		skipped:   map[string]int64{},
		classes:   map[string]int64{},
		hashes:    map[uint64]struct{}{},
		known:     map[string]knownFinding{},
		knownHits: map[string]int64{},
		extra:     map[string]interface{}{},
	}
	if p := os.Getenv("VERIF_KNOWN"); p != "" {
		if b, err := os.ReadFile(p); err == nil {
			var f struct {
				Findings []knownFinding `json:"findings"`
			}
			if json.Unmarshal(b, &f) == nil {
				for _, k := range f.Findings {
					if k.Property == property && k.Status == "open" {
						c.known[k.Signature] = k
					}
				}
			}
		}
	}
	collectors[property] = c
	return c
}

// IsKnown tells whether a signature is listed as an open known finding.
func (c *Collector) IsKnown(sig string) bool {
	_, ok := c.known[sig]
	return ok
}

// SetExtra records an additional measured value in the shard summary.
func (c *Collector) SetExtra(k string, v interface{}) {
	c.mu.Lock()
	c.extra[k] = v
	c.mu.Unlock()
}

// AddExtra adds to a measured counter in the shard summary.
func (c *Collector) AddExtra(k string, n int64) {
	c.mu.Lock()
	cur, _ := c.extra[k].(int64)
	c.extra[k] = cur + n
	c.mu.Unlock()
}

func hashJSON(b []byte) uint64 {
	h := fnv.New64a()
	h.Write(b)
	return h.Sum64()
}

// Observe records one executed case. It returns the violation to report (nil
// when the case passed or hit an open known finding).
func (c *Collector) Observe(cs interface{}, r Result) *Violation {
	c.mu.Lock()
	defer c.mu.Unlock()
	var raw []byte
	needRaw := !c.failed
	if r.Viol != nil {
		needRaw = true
	}
	if needRaw {
		raw, _ = json.Marshal(cs)
	}
	if r.Viol != nil {
		if k, ok := c.known[r.Viol.Signature]; ok {
			if c.knownHits[k.Signature] == 0 {
				// the driver turns this into the KNOWN-FINDING line
				c.extraKnownSample(k.Signature, raw, r.Viol.Message)
			}
			c.knownHits[k.Signature]++
			if !c.failed {
				c.evals++
			}
			return nil
		}
		c.failed = true
		c.viol = r.Viol
		c.saveReplay(raw, r.Viol)
		if strings.Contains(r.Viol.Signature, "wedged") || strings.Contains(r.Viol.Signature, "never-returns") {
			// every re-execution of such a case blocks until the timeout again, and rapid checks its
			// shrinking deadline only between passes: do not shrink wedges
			c.wedged = true
		}
		return r.Viol
	}
	if c.failed {
		// a shrink candidate that passed: not part of the exploration statistics
		return nil
	}
	c.evals++
	if r.Skipped != "" {
		c.skipped[r.Skipped]++
		return nil
	}
	for _, cl := range r.Classes {
		c.classes[cl]++
	}
	if r.NonTrivial {
		c.nontrivial++
		c.hashes[hashJSON(raw)] = struct{}{}
	}
	n := c.evals
	if len(c.samples) < 6 && (r.NonTrivial && (n == 1 || n == 7 || n == 50 || n == 333 || n == 2000) || (len(c.samples) == 0 && r.NonTrivial)) {
		if len(raw) < 6000 {
			c.samples = append(c.samples, json.RawMessage(raw))
		}
	}
	return nil
}

func (c *Collector) extraKnownSample(sig string, raw []byte, msg string) {
	m, _ := c.extra["known_samples"].(map[string]interface{})
	if m == nil {
		m = map[string]interface{}{}
		c.extra["known_samples"] = m
	}
	if len(raw) > 6000 {
		raw = []byte(`"(case too large to inline)"`)
	}
	m[sig] = map[string]interface{}{"message": msg, "case": json.RawMessage(raw)}
}

// replay file format
type ReplayFile struct {
	Property  string          `json:"property"`
	Test      string          `json:"test"`
	Signature string          `json:"signature"`
	Message   string          `json:"message"`
	Case      json.RawMessage `json:"case"`
}

func (c *Collector) saveReplay(raw []byte, v *Violation) {
	dir := os.Getenv("VERIF_OUT")
	if dir == "" {
		return
	}
	// keep the smallest failing case seen; rapid re-runs the minimal case last,
	// so "<=" makes the final one win ties
	if c.replay != "" && len(raw) > c.replayLen {
		return
	}
	name := filepath.Join(dir, fmt.Sprintf("fail-%s-%s.json", c.Property, Env("VERIF_SHARD", "0")))
	rf := ReplayFile{Property: c.Property, Test: c.test, Signature: v.Signature, Message: v.Message, Case: raw}
	b, _ := json.MarshalIndent(rf, "", " ")
	if os.WriteFile(name, b, 0o644) == nil {
		c.replay, c.replayLen = name, len(raw)
	}
}

// MarkExhaustive records that a finite sub-space was enumerated completely.
func (c *Collector) MarkExhaustive(what string, n int64) {
	c.mu.Lock()
	c.exhaustive = true
	m, _ := c.extra["exhaustive_subspaces"].(map[string]interface{})
	if m == nil {
		m = map[string]interface{}{}
		c.extra["exhaustive_subspaces"] = m
	}
	m[what] = n
	c.mu.Unlock()
}

// Flush writes the shard summary and the distinct non-trivial hashes.
func (c *Collector) Flush() {
	dir := os.Getenv("VERIF_OUT")
	if dir == "" {
		return
	}
	c.mu.Lock()
	defer c.mu.Unlock()
	shard := Env("VERIF_SHARD", "0")
	sum := map[string]interface{}{
		"property":    c.Property,
		"shard":       shard,
		"evaluations": c.evals,
		"nontrivial":  c.nontrivial,
		"distinct":    len(c.hashes),
		"classes":     c.classes,
		"skipped":     c.skipped,
		"samples":     c.samples,
		"known_hits":  c.knownHits,
		"extra":       c.extra,
		"exhaustive":  c.exhaustive,
		"regress":     c.regress,
	}
	if c.viol != nil {
		sum["violation"] = map[string]string{"signature": c.viol.Signature, "message": c.viol.Message, "replay": c.replay}
	}
	b, _ := json.MarshalIndent(sum, "", " ")
	_ = os.WriteFile(filepath.Join(dir, fmt.Sprintf("sum-%s-%s.json", c.Property, shard)), b, 0o644)
	hs := make([]uint64, 0, len(c.hashes))
	for h := range c.hashes {
		hs = append(hs, h)
	}
	sort.Slice(hs, func(i, j int) bool { return hs[i] < hs[j] })
	buf := make([]byte, 8*len(hs))
	for i, h := range hs {
		binary.LittleEndian.PutUint64(buf[8*i:], h)
	}
	_ = os.WriteFile(filepath.Join(dir, fmt.Sprintf("hashes-%s-%s.bin", c.Property, shard)), buf, 0o644)
}

// Run is the body of every rapid-driven test: replay mode if VERIF_REPLAY is
// set, otherwise regress cases first and then rapid.Check(exec(gen)).
func Run[C any](t *testing.T, property string, gen func(*rapid.T) C, exec func(C) Result) {
	Quiet()
	c := For(property)
	defer c.Flush()
	c.mu.Lock()
	c.test = t.Name()
	c.mu.Unlock()
	if p := os.Getenv("VERIF_REPLAY"); p != "" {
		ReplayFileInto(t, c, p, exec)
		return
	}
	// replay tier: committed regression cases of this test run first, without rapid
	if dir := os.Getenv("VERIF_REGRESS"); dir != "" {
		files, _ := filepath.Glob(filepath.Join(dir, "*.json"))
		sort.Strings(files)
		for _, f := range files {
			b, err := os.ReadFile(f)
			if err != nil {
				continue
			}
			var rf ReplayFile
			if json.Unmarshal(b, &rf) != nil || rf.Property != property || rf.Test != t.Name() {
				continue
			}
			ReplayFileInto(t, c, f, exec)
			c.mu.Lock()
			c.regress++
			c.mu.Unlock()
			if t.Failed() {
				return
			}
		}
	}
	rapid.Check(t, func(rt *rapid.T) {
		cs := gen(rt)
		c.mu.Lock()
		w, wv := c.wedged, c.viol
		c.mu.Unlock()
		if w {
			rt.Fatalf("VIOLATION-DETAIL property=%s signature=%s: %s (not shrunk: re-running a case that blocks costs a timeout each time)", property, wv.Signature, wv.Message)
		}
		r := exec(cs)
		if v := c.Observe(cs, r); v != nil {
			rt.Fatalf("VIOLATION-DETAIL property=%s signature=%s: %s", property, v.Signature, v.Message)
		}
	})
}

// ReplayFileInto runs one saved case through exec, bypassing rapid.
func ReplayFileInto[C any](t *testing.T, c *Collector, path string, exec func(C) Result) {
	b, err := os.ReadFile(path)
	if err != nil {
		t.Fatalf("replay: %v", err)
	}
	var rf ReplayFile
	if err := json.Unmarshal(b, &rf); err != nil {
		t.Fatalf("replay: %v", err)
	}
	var cs C
	if err := json.Unmarshal(rf.Case, &cs); err != nil {
		t.Fatalf("replay: cannot decode case: %v", err)
	}
	r := exec(cs)
	if v := c.Observe(cs, r); v != nil {
		t.Fatalf("VIOLATION-DETAIL property=%s signature=%s: %s", c.Property, v.Signature, v.Message)
	}
}

// Direct records a case executed outside rapid (enumerations, regress cases,
// concurrency rounds). It fails the test on a violation.
func Direct[C any](t *testing.T, c *Collector, cs C, r Result) bool {
	c.mu.Lock()
	if c.test == "" {
		c.test = t.Name()
	}
	c.mu.Unlock()
	if v := c.Observe(cs, r); v != nil {
		t.Errorf("VIOLATION-DETAIL property=%s signature=%s: %s", c.Property, v.Signature, v.Message)
		return false
	}
	return true
}
