#!/usr/bin/env python3
"""Regenerates MANIFEST.json from checks_config.py and manifest_texts.py."""
import json, os, subprocess, sys
ROOT = os.path.dirname(os.path.abspath(__file__))
sys.path.insert(0, ROOT)
from checks_config import PROPS
from manifest_texts import LEVEL, NOT_APPLICABLE, ENGINES, NOTES

hooks = subprocess.run(["git", "-C", "/repo", "log", "--format=%H %s"], stdout=subprocess.PIPE, text=True).stdout.splitlines()
hook_commits = [l.split()[0] for l in hooks if " verif hook:" in l]

checks = []
for pid in sorted(PROPS):
    cfg = PROPS[pid]
    lv = LEVEL[pid]
    checks.append({
        "property_id": pid,
        "quick_cmd": "./check %s --tier quick" % pid,
        "thorough_cmd": "./check %s --tier thorough" % pid,
        "evidence_file": "/verif/evidence/%s.json" % pid,
        "replay_cmd_template": "./check %s --replay {path}" % pid,
        "engine": cfg["engine"],
        "level_claimed": {"category": cfg.get("level", "exploration"), "text": lv["text"], "design_ref": lv["design_ref"]},
        "level_note": lv["note"],
        "technique": lv["technique"],
    })
m = {
    "version": 1,
    "setup_cmd": "./setup",
    "hooks": {
        "guard": "verif",
        "enable": "go build tag: every harness binary is built with `go test -c -tags verif` in /verif/harness (go.mod replaces github.com/coredhcp/coredhcp with /repo)",
        "baseline_off_cmd": "cd /repo && GOFLAGS=-mod=mod GOPROXY=off GOSUMDB=off GOTOOLCHAIN=local go test -vet=off -count=1 ./...",
        "source_commits": hook_commits,
        "add_only": True,
    },
    "engines": ENGINES,
    "checks": checks,
    "notes": NOTES,
    "not_applicable": NOT_APPLICABLE,
}
with open(os.path.join(ROOT, "MANIFEST.json"), "w") as fh:
    json.dump(m, fh, indent=1)
    fh.write("\n")
print("MANIFEST.json: %d checks, %d not applicable" % (len(checks), len(NOT_APPLICABLE)))
