#!/usr/bin/env python3
"""Validates MANIFEST.json and evidence/*.json against the schemas (development aid; uses the tooling venv)."""
import json, glob, sys
import jsonschema
m=json.load(open('/verif/MANIFEST.json')); s=json.load(open('/root/.vp/MANIFEST.schema.json')); jsonschema.validate(m,s); print("manifest valid")
s=json.load(open('/root/.vp/EVIDENCE.schema.json'))
for f in sorted(glob.glob('/verif/evidence/*.json')):
    jsonschema.validate(json.load(open(f)),s); print(f,"valid")
