"""Texts of MANIFEST.json (level claims, notes). Kept apart from the run
configuration in checks_config.py."""

ALL = ["C%02d" % i for i in range(1, 21)]

LEVEL = {
    "C04": {
        "text": "Randomised model-based exploration: thousands of generated Allocate/Free histories per run on generated pool geometries, each interpreted against a set model, plus concurrent phases with a schedule-independent ownership (CAS) oracle and a final drain that must return exactly the complement of the outstanding set. Sampling, not proof; schedules are sampled by the Go scheduler.",
        "design_ref": "5.4-5.7", "note": "trusts math/big, the Go runtime and rapid; frees only outstanding blocks as the property states",
        "technique": "stateful property-based testing (rapid) against a set model + concurrent ownership oracle",
    },
    "C05": {
        "text": "Randomised exploration of pool geometries x hint shapes with an independent big-integer oracle for block membership, alignment and length, and an exact 'fails iff full' capacity check after every history (drain).",
        "design_ref": "5.4-5.7", "note": "trusts math/big; allocation policy is not asserted",
        "technique": "property-based testing (rapid) with a math/big reference and a capacity (drain) invariant",
    },
    "C06": {
        "text": "Randomised model-based exploration where Free may name any well-formed prefix (in pool, below, above, sub-prefix, other family for IPv4); success iff the prefix lies in an outstanding block, and the drain proves nothing else was released.",
        "design_ref": "5.4-5.7", "note": "super-block and malformed Free arguments are outside the quantifier and not generated",
        "technique": "stateful property-based testing (rapid) against a set model",
    },
    "C07": {
        "text": "Randomised exploration of hints naming a free block at every offset (first, last, word-boundary blocks, inner addresses, both IPv4 forms); the returned block must be the hinted one.",
        "design_ref": "5.4-5.7", "note": "trusts the set model to know which blocks are free",
        "technique": "stateful property-based testing (rapid) against a set model",
    },
    "C20": {
        "text": "Differential testing of Offset/AddPrefixes against math/big on 10^5..10^7 generated (base, x, p, n) with carry/borrow/overflow patterns, plus the inverse law; coverage-guided native fuzzing of the same oracle in the thorough tier.",
        "design_ref": "5.20", "note": "domain restricted to what the property quantifies over: base aligned to /p, x >= base",
        "technique": "property-based differential testing (rapid) against math/big + native go fuzzing",
    },
    "C08": {
        "text": "Randomised model-based exploration of DHCPv6 message histories (many clients, IA_PD/hint shapes incl. wire-only encodings, relayed, concurrent phase) through the handler returned by prefix.Plugin.Setup6, each reply checked by a validity predicate and an owner table.",
        "design_ref": "5.8", "note": "trusts the codec library for parsing replies; allocation policy not asserted",
        "technique": "stateful property-based testing (rapid): validity predicate + owner-table model",
    },
    "C09": {
        "text": "Randomised model-based exploration of renewal/retransmission histories; the model is the set of prefixes each client was told it holds, evaluated before every message.",
        "design_ref": "5.9", "note": "assertions limited to the request shapes the statement names (exact, hint-less, retransmission of such)",
        "technique": "stateful property-based testing (rapid) against a held-set model",
    },
    "C02": {
        "text": "Randomised model-based exploration of DISCOVER/REQUEST/restart histories (and concurrent phases) through rangeplugin.Plugin.Setup4 on a real sqlite database, against a reference lease table.",
        "design_ref": "5.2", "note": "sampling; schedules of the concurrent phase are the Go scheduler's",
        "technique": "stateful property-based testing (rapid) against a reference lease table",
    },
    "C03": {
        "text": "Every prefix of every generated history is a crash point: the database is copied, read independently, reopened and probed; the restored bindings must equal the model.",
        "design_ref": "5.3", "note": "quiescent crash points only (no torn pages)",
        "technique": "property-based testing (rapid) with crash-point enumeration per history and an independent database reader",
    },
    "C14": {
        "text": "The decision table (message type x Server-ID relation x relay depth; siaddr x option 54) is enumerated completely for fixed arguments on every run, and sampled with generated server_id arguments in every accepted spelling; the oracle is the RFC 8415 section 16 table written independently, with the DUID encoded by the harness.",
        "design_ref": "5.14", "note": "the enumeration is complete only for the listed dimensions and two argument pairs",
        "technique": "exhaustive enumeration of the decision table + property-based testing (rapid) over arguments",
    },
    "C17": {
        "text": "Randomised differential testing of every option plugin against option encoders written independently in the harness, over accepted arguments x request-list subsets (incl. absent) x stub shapes; the reply must equal the stub plus exactly the expected option.",
        "design_ref": "5.17", "note": "expected encodings are the harness's reading of RFC 2132/3442/3397/8925/3646/5970",
        "technique": "property-based differential testing (rapid) against independent option encoders",
    },
    "C19": {
        "text": "Randomised exploration of the argument space of every built-in plugin (valid, boundary, invalid tokens per argument kind) crossed with a request battery; oracle: setup error XOR (no panic and the reply round-trips to the same options).",
        "design_ref": "5.19", "note": "token pools are finite lists chosen by the harness; resource-bounded vectors are skipped and counted",
        "technique": "property-based testing (rapid) with a round-trip oracle over a request battery",
    },
    "C10": {
        "text": "Randomised differential testing of the served mapping against an independent parser of generated lease files (every MAC/IP spelling, duplicates, one of each malformation), fault sequences of good/malformed rewrites under autorefresh with an old-or-new / single-switch-point oracle, and dual-stack configurations.",
        "design_ref": "5.10", "note": "'eventually' is a 30 s deadline with a second file event; atomicity is judged from time-ordered lookups",
        "technique": "property-based differential testing (rapid) against an independent file parser + fault-sequence generation for autorefresh",
    },
    "C18": {
        "text": "Round-trip testing of config.Load: configurations are generated as structures, rendered to YAML in many spellings and the loaded result must equal the structure or be rejected for exactly the listed reasons; byte-mutated renderings and (thorough) coverage-guided fuzzing check 'errors, not panics'.",
        "design_ref": "5.18", "note": "the renderer is trusted to produce the YAML it intends; YAML's own scalar conversions are excluded from the vocabulary",
        "technique": "property-based round-trip testing (rapid) over a YAML grammar + mutation + native go fuzzing",
    },
    "C01": {
        "text": "Randomised exploration of (chain of validly configured built-in plugins) x (history of structured, mutated and retransmitted datagrams, relay-nested for DHCPv6) through the real HandleMsg4/HandleMsg6 via the capture hook, with fresh stateful plugin instances per case; oracle: no panic, no wedge (watchdog + goroutine state), at most one parseable reply, and a canary request is still handled afterwards. Thorough adds coverage-guided native fuzzing of whole histories.",
        "design_ref": "5.1", "note": "sampling of an unbounded space; datagrams <= 1500 bytes in rapid cases; chains use a fixed set of valid argument variants",
        "technique": "stateful property-based testing (rapid) of datagram histories + native go fuzzing, crash/wedge/canary oracle",
    },
    "C11": {
        "text": "The opcode x message-type matrix is enumerated completely on every run and the rest of the header/option space is sampled under empty, synthetic and built-in chains; an independent classification of each datagram decides whether any output is allowed, and every output is compared field by field with its request.",
        "design_ref": "5.11", "note": "library parse is the definition of 'unparseable'",
        "technique": "exhaustive enumeration (opcode x type) + property-based testing (rapid) + native go fuzzing with a field-echo oracle",
    },
    "C12": {
        "text": "Message type x client-id x rapid-commit x relay depth 0..2 is enumerated completely on every run; relay nesting to depth 4, per-layer options, source addresses, ports and listener binding are sampled; replies are read with the harness's own walker and compared layer by layer with the request.",
        "design_ref": "5.12", "note": "empty chain, so only the server itself can drop",
        "technique": "exhaustive enumeration of the type table + property-based testing (rapid) + native go fuzzing with a mirror oracle",
    },
    "C13": {
        "text": "Model-based testing of LoadPlugins and the dispatch loops with synthetic plugins covering every handler behaviour the statement lists; the model is a ten-line interpreter of the statement. Built-in handlers are wrapped and checked for 'nil only with stop' over C01's histories.",
        "design_ref": "5.13", "note": "synthetic plugins are registered through the public RegisterPlugin API",
        "technique": "property-based testing (rapid) against an interpreter of the chain semantics, invocation-log oracle",
    },
    "C15": {
        "text": "The whole RFC 2131 section 4.1 decision table (900 rows incl. listener binding) is enumerated on every run and sampled with random addresses; destination, port, interface pinning and the decoded layer-2 frame are compared with the cascade written independently.",
        "design_ref": "5.15", "note": "the raw-socket tail of sendEthernet is not executed (frame captured after serialisation)",
        "technique": "exhaustive enumeration of the decision table + property-based testing (rapid)",
    },
    "C16": {
        "text": "Generated concurrent scenarios (8..64 goroutines through full DHCPv4/DHCPv6 chains, lease files rewritten meanwhile) on a -race build: any race-detector report is a violation, every reply must belong to its request (buffer recycling), and the multiset of replies must satisfy invariants that every serial order satisfies. Schedules are sampled, not enumerated.",
        "design_ref": "5.16", "note": "weakest claim: the Go scheduler owns the interleavings; failures here do not shrink",
        "technique": "randomised concurrent stress under the Go race detector + cross-talk and serial-equivalence invariants",
    },
}

NOT_APPLICABLE = [
    {"property_id": p, "reason": "check not built yet in this round (planned, see DESIGN.md); not a limit of the technique"}
    for p in ALL if p not in LEVEL
]

ENGINES = [
    {"name": "alloc", "path": "harness/alloc", "serves_properties": ["C04", "C05", "C06", "C07", "C20"],
     "kind_free_text": "rapid state-machine style histories over the two bitmap allocators against a set model; math/big differential for the prefix arithmetic"},
    {"name": "lease4", "path": "harness/lease4", "serves_properties": ["C02", "C03"],
     "kind_free_text": "DHCPv4 request/restart histories through rangeplugin.Plugin.Setup4 on sqlite files, reference lease table, crash-point copies"},
    {"name": "opts", "path": "harness/opts", "serves_properties": ["C14", "C17", "C19"],
     "kind_free_text": "direct calls of the handlers returned by each Plugin.Setup4/Setup6 with wire-built requests; decision-table enumeration, independent option encoders, round-trip oracle"},
    {"name": "static", "path": "harness/static", "serves_properties": ["C10"],
     "kind_free_text": "lease files from a grammar through file.Plugin.Setup4/Setup6, independent parser as model, autorefresh rewrite sequences, dual-stack"},
    {"name": "conf", "path": "harness/conf", "serves_properties": ["C18"],
     "kind_free_text": "structured configurations rendered to YAML and loaded with config.Load; mutated text; FuzzConfigLoad"},
    {"name": "srv", "path": "harness/srv", "serves_properties": ["C01", "C11", "C12", "C13", "C14", "C15", "C16"],
     "kind_free_text": "datagrams fed to HandleMsg4/HandleMsg6 through the capture hook (server/verif_on.go); histories, decision tables, synthetic plugins, concurrent scenarios under -race, native fuzz targets"},
    {"name": "pd6", "path": "harness/pd6", "serves_properties": ["C08", "C09"],
     "kind_free_text": "DHCPv6 prefix-delegation message histories (wire-built requests) through prefix.Plugin.Setup6 against an owner table and held sets"},
]

NOTES = "One driver (./check <ID> [--tier quick|thorough] [--replay file]); all randomness from rapid seeded by VERIF_SEED; evidence is merged from per-shard measurements; known_findings.json lists fixed and open findings (open ones print KNOWN-FINDING and exit 0)."
