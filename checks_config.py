"""Per-property configuration of ./check: which engine (Go package under
harness/), which tests, how many cases per tier, and the texts that go into the
evidence file (rule, assumptions). Counts in evidence are measured, not taken
from here."""

ALLOC_ASSUME = [
    "pools are passed as net.ParseCIDR would return them (base masked, 16-byte form), which is what the only caller passes",
    "128-bit hint masks are paired only with 16-byte addresses and 32-bit/nil masks with 4-byte addresses",
    "allocation policy (which free block a hint-less call returns) is deliberately not asserted",
]


def alloc_prop(pid, rule, quick, thorough, extra_assume=()):
    return {
        "engine": "alloc",
        "tests": [{"name": "Test" + pid,
                   "quick": {"checks": quick, "shards": 3},
                   "thorough": {"checks": thorough, "shards": 16}},
                  # IPv4 ranges of 2^31..2^32 addresses (each allocator holds 256-512 MB of bitmap)
                  {"name": "Test" + pid + "Big",
                   "quick": {"checks": 24, "shards": 1},
                   "thorough": {"checks": 150, "shards": 4}}],
        "rule": rule + " Test" + pid + "Big: IPv4 ranges of 2^31..2^32 addresses (incl. 0.0.0.0-255.255.255.255, whose size does not fit in 32 bits) with histories of 2..24 calls against the same set model; such a pool is never full, so Allocate must always succeed; no drain; non-trivial: >= 2 hint-less allocations and a honoured hint.",
        "assumptions": ALLOC_ASSUME + list(extra_assume),
    }


PROPS = {
    "C04": alloc_prop(
        "C04",
        "rapid draws a pool geometry (IPv4 range of 1..300 [thorough ..4097] addresses anywhere in the address space; IPv6 pool /0../128 with 2^0..2^8 [thorough 2^12] blocks in the regimes page<=64, pool<64<page, pool>=64) and a history of Allocate(hint shape)/Free(outstanding block) calls interpreted against a set model, optionally followed by a concurrent phase (2..8 goroutines, ownership CAS table) and always by a drain that must return exactly the complement of the outstanding set. Non-trivial: a block is re-allocated after a Free, or the case has a concurrent phase. Distinct: FNV-64 of the case JSON.",
        8000, 200000),
    "C05": alloc_prop(
        "C05",
        "same generator as C04 with every hint shape (none, free/held block at any inner offset, below/above the pool, other family, unspecified address; masks none/canonical 0..128/non-contiguous/32-bit); each successful allocation is checked with math/big block arithmetic (in pool, aligned, length = max(page, canonical hint length)); Allocate must fail iff all N blocks are outstanding, with ErrNoAddrAvail, and the final drain must yield exactly N-|outstanding| blocks. Non-trivial: exhaustion reached, or the pool straddles the 64-bit boundary (pool<64<page). Distinct: FNV-64 of the case JSON.",
        8000, 200000),
    "C06": alloc_prop(
        "C06",
        "histories in which Free may name any well-formed prefix: outstanding blocks, free blocks, any block, sub-prefixes of a block, block-sized (or longer) prefixes 1..2^40 blocks below the pool base or above its end where such an address exists; IPv4: any address in/out of range in 4- or 16-byte form, and an IPv6 address. Free must succeed iff the prefix lies in an outstanding block and then release exactly it; the final drain detects any block released or lost silently. Non-trivial: at least one Free that must fail was issued while blocks were outstanding. Distinct: FNV-64 of the case JSON.",
        8000, 200000,
        ["Free of a prefix shorter than the allocation size (a super-block) and of malformed IPNets (nil or mismatched IP/mask) is not generated: the property does not define it",
         "an IPv4 prefix is never passed to the IPv6 allocator's Free"]),
    "C07": alloc_prop(
        "C07",
        "histories biased to hints that name a currently free block (k-th free block incl. the last ones, any inner offset, 4- and 16-byte IPv4 forms, any hint mask); the allocation must be exactly the hinted block. Non-trivial: a hinted Allocate on a free block that is not the first free block of the pool. Distinct: FNV-64 of the case JSON.",
        8000, 200000),
    "C20": {
        "engine": "alloc",
        "tests": [{"name": "TestC20",
                   "quick": {"checks": 200000, "shards": 3},
                   "thorough": {"checks": 1500000, "shards": 16}}],
        "fuzz": [{"name": "FuzzIPCalc", "seconds": 60}],
        "rule": "rapid draws p in 0..128 (weighted to 0,1,63,64,65,127,128), a base of two 64-bit halves from {0, ~0, 1, 2^k, 2^k-1, ~0<<k, random} masked to /p, x = base + delta (0, 1, block-1, block, m*block+-1, up to the all-ones address) and n from {0..2, 2^p+-1, blocks-to-end+-1, half patterns}; Offset (both argument orders) and AddPrefixes are compared with math/big, plus the inverse law. Non-trivial: borrow or carry across the 64-bit halves, an expected overflow, or p in 63..65. Distinct: FNV-64 of the case JSON.",
        "assumptions": ["base is aligned to /p and x >= base, as the property's quantifier states; both are 16-byte addresses"],
    },
    "C08": {
        "engine": "pd6",
        "tests": [{"name": "TestC08", "quick": {"checks": 8000, "shards": 3}, "thorough": {"checks": 150000, "shards": 16}}],
        "rule": "rapid draws an IPv6 pool (/32../120, 1..64 [thorough ..1024] blocks; one in four written with bits set below its length), 1..4 clients (DUID-LL/LLT/EN/UUID/opaque, distinct raw ids) and a history of 1..12 [thorough ..30] messages of every supported type, direct or relayed (depth 1..2), each with 0..3 IA_PD carrying 0..3 IAPrefix hints (none, wire length 0, length-only, free block, held by self, held by another client, any block, out of pool, longer/shorter than the page, length > 128), optionally followed by a concurrent phase (2..6 goroutines); histories also contain 'age' steps (1 s .. 25 h pass without traffic: the plugin's records are aged through the verif hook prefix.VerifAge) and IA_PDs with 65..70 renewal-shaped hints followed by their retransmission; one hint in four carries lifetime fields (preferred/valid in any relation). Requests are built as wire bytes and parsed by the library; every reply is checked by a validity predicate (IA_PD correspondence, in pool, aligned, page <= length <= 128, 0 < preferred <= valid <= 3600 s, NoPrefixAvail when empty) and an owner table block -> client. Non-trivial: >= 2 clients hold a prefix, or NoPrefixAvail was seen, or a hint named a block held by another client, or a concurrent phase ran. Distinct: FNV-64 of the case JSON.",
        "assumptions": ["pools are IPv6 CIDRs as the plugin documents", "which free block a new delegation gets is not asserted", "the response stub is built as server.HandleMsg6 builds it"],
    },
    "C09": {
        "engine": "pd6",
        "tests": [{"name": "TestC09", "quick": {"checks": 8000, "shards": 3}, "thorough": {"checks": 150000, "shards": 16}}],
        "rule": "same domain as C08 (incl. age steps and IA_PDs with more than 64 hints) with later messages biased to renewal shapes (IA_PD without IAPrefix, IAPrefix of wire length 0 and address ::, exact hints on one/several held prefixes, two or three new prefixes asked in one IA_PD, byte-identical retransmission). Oracle: held[c] = every prefix an earlier reply told client c it holds; an IA_PD with an exact hint on P in held[c] must be answered with P; a hint-less IA_PD with every P in held[c]; a retransmitted message whose IA_PDs are all renew-shaped is answered with nothing outside held[c]; valid lifetime never below what remained (2 s tolerance; age steps count). Non-trivial: a renewal-shaped IA_PD was sent by a client that holds a prefix. Distinct: FNV-64 of the case JSON.",
        "assumptions": ["'asks for exactly P' means same address bytes and same length as the client was told", "a length-only hint (::/L, L > 0) is not a hint-less request; nothing beyond C08 validity is asserted for it",
                        "the retransmission clause is applied only to messages all of whose IA_PDs are hint-less or exact hints on held prefixes"],
    },
    "C02": {
        "engine": "lease4",
        "tests": [{"name": "TestC02", "quick": {"checks": 800, "shards": 4}, "thorough": {"checks": 600, "shards": 96, "timeout": 3000}}],
        "rule": "rapid draws a range of 2..200 addresses (word-boundary sizes 63/64/65/127/128/129, placed anywhere incl. 0.0.0.0 and ending at 255.255.255.255), a lease duration, 1..N+3 clients with hardware addresses of 0..16 bytes (decimal-looking bytes because the column has NUMERIC affinity) and a history of 0..16 [thorough ..40] DISCOVER/REQUEST/RESTART steps with hostile hostnames, optionally followed by a concurrent phase (4..12 goroutines, same-client storms); requests are wire-built, the stub is built as HandleMsg4 builds it, the handler comes from Plugin.Setup4 on a real sqlite file. Oracle: reference lease table (client -> address, address -> client): in range, lease-time option, stickiness, uniqueness, refusal iff unknown client and range full. Non-trivial: a repeat of some client AND (a restart, exhaustion or a concurrent phase). Distinct: FNV-64 of the case JSON.",
        "assumptions": ["restarts reuse the same range and lease arguments", "which free address a new client gets is not asserted",
                        "each Setup4 leaks one sqlite handle by design of the plugin, so cases per process are bounded (skipped as 'fd-limit' beyond the budget)"],
    },
    "C03": {
        "engine": "lease4",
        "tests": [{"name": "TestC03", "quick": {"checks": 400, "shards": 4}, "thorough": {"checks": 400, "shards": 96, "timeout": 3000}},
                  {"name": "TestC03Expiry", "quick": {"checks": 3, "shards": 4}, "thorough": {"checks": 20, "shards": 16}, "shrinktime": "1s"}],
        "rule": "C02's histories with hardware-address lengths uniform in 0..16 and hostnames biased to numeric-looking/NUL/invalid UTF-8/255-byte values; after EVERY step the sqlite file (and journal files if present) is copied and (1) read directly by the harness with database/sql and its own parser of the mac column, (2) reopened with a fresh Setup4, (3) probed with one DISCOVER per known client and one new client. Oracle: rows == model exactly (none lost, changed, extra, duplicated), restart succeeds, every client gets its address back, stored expiry >= floor(t_before_call + lease) - 1. TestC03Expiry adds histories in which 2.1 s of wall-clock time pass between a client's first lease and its renewal, so that the stored expiry must move. Non-trivial: a crash point with a binding whose chaddr length is not 6, or a numeric-looking hostname, or a renewal after time has passed. Distinct: FNV-64 of the case JSON.",
        "assumptions": ["crash points are the quiescent points between datagrams (file copied while no request is in flight); torn sqlite pages are not injected",
                        "the database lives on tmpfs when /dev/shm exists (fsync is a no-op there)"],
    },
    "C14": {
        "engine": "opts",
        "tests": [{"name": "TestC14", "quick": {"checks": 40000, "shards": 2}, "thorough": {"checks": 2000000, "shards": 16}, "count_free": True},
                  {"name": "TestC14Hist", "engine": "srv", "quick": {"checks": 2500, "shards": 3}, "thorough": {"checks": 25000, "shards": 8}}],
        "rule": "TestC14Hist: C01-style histories through the server under chains that start with server_id and continue with any other built-in plugins (stateful ones included): every reply that goes out, whatever the later plugins did to it, must carry this server's identifier (DHCPv4: siaddr and exactly one option 54 equal to the configured address, also inside link-level frames; DHCPv6: exactly one Server-ID equal to the configured DUID in the innermost message). TestC14: every run first enumerates the whole matrix (2 server_id argument pairs x 256 DHCPv6 message types x 9 Server-ID relations {absent, byte-equal, other kind same MAC, same kind other MAC, longer, shorter, EN, UUID, opaque} x relay depth 0..2, and DHCPv4 {DISCOVER, REQUEST} x siaddr {zero, own, other} x option 54 {absent, zero, own, other}); rapid then draws server_id arguments (every accepted type spelling x MAC spelling of 6/8/20 bytes; dotted or v4-mapped IPv4) crossed with the same request dimensions and a stub that may already carry a foreign server id. Oracle: RFC 8415 section 16 table written independently; accepted replies must carry exactly one Server-ID byte-equal to the DUID the harness encodes itself (v4: siaddr and option 54 equal the configured address). Every row is non-trivial (TestC14); at least one reply went out (TestC14Hist); distinct: FNV-64 of the case JSON.",
        "assumptions": ["requests with two Server-ID options or a malformed option 54 are not generated (the statement does not define them)",
                        "for message types the server itself never passes to plugins the handler is given a plain Reply stub"],
    },
    "C17": {
        "engine": "opts",
        "tests": [{"name": "TestC17", "quick": {"checks": 40000, "shards": 3}, "thorough": {"checks": 1000000, "shards": 16}},
                  {"name": "TestC17Interleave", "quick": {"checks": 10000, "shards": 1}, "thorough": {"checks": 300000, "shards": 4}}],
        "rule": "rapid draws an option plugin (netmask, router, dns, mtu, searchdomains, staticroute, lease_time, ipv6only, autoconfigure, nbp, sleep; DHCPv4 and DHCPv6 where supported), an accepted argument vector (1..4 addresses, MTU 0..65535, durations, LDH domain lists with labels up to 63 bytes, IPv4 route lists, canonical URLs over http/https/ftp/tftp/none with and without params=), a request (DISCOVER/REQUEST or SOLICIT/REQUEST/RENEW/INFORMATION-REQUEST/REBIND, relay depth 0..2, request list absent or a shuffled subset of the relevant codes plus filler, option 116 present or not) and a stub (OFFER/ACK, yiaddr assigned or not, plugin's option already present or not). Oracle: the expected option bytes are encoded by the harness (RFC 2132/3442/3397/8925/3646/5970) and the reply, read with the harness's own TLV walker, must equal the stub plus exactly that change (header untouched, nothing else added, each option once); domain lists are compared after an independent RFC 1035 decode. TestC17Interleave configures a plugin for both protocols with different values and lets 2..5 requests pass the handlers before the first reply is serialised (the server serialises a reply only after its chain has run, while other datagrams are being handled): every reply must still carry its own protocol's configured value. Every case is non-trivial (TestC17); both protocols involved (TestC17Interleave); distinct: FNV-64 of the case JSON.",
        "assumptions": ["a parameter request list that is present but empty, or that lists a code twice, is never generated", "option values longer than 255 bytes are left to C19",
                        "whether nbp stops the chain is not asserted (the statement is silent)"],
    },
    "C19": {
        "engine": "opts",
        "tests": [{"name": "TestC19", "quick": {"checks": 12000, "shards": 4}, "thorough": {"checks": 60000, "shards": 32}}],
        "rule": "rapid draws one of the 21 (built-in plugin, protocol) pairs and an argument vector of arity 0..4 whose tokens come, per position, from pools of valid, boundary and invalid values of the expected kind (IPv4/IPv6/v4-mapped/garbage addresses, CIDRs of both families, dest,gw pairs in every family mix, durations incl. negative/huge/garbage, integers incl. 65535/65536/negative/huge, URLs of every scheme incl. invalid escapes and 70 kB parameters, file names: valid/missing/directory/not-a-database, DUID types, MACs of 5..20 bytes, domain names with labels of 63/64/191/192/255/300 bytes, empty labels, trailing dots, non-ASCII), sometimes from another kind's pool. Setup runs under recover; if it returns a handler, a battery of 13 DHCPv4 or 54 DHCPv6 requests is run: no panic in handler or serialisation, the reply parses, its options equal the reply object's options one by one, and re-serialising gives identical bytes. Non-trivial: every case that was not skipped for a resource bound (rejected at setup, or accepted and run against the battery); distinct: FNV-64 of the case JSON. The range 0.0.0.0-255.255.255.255 (2^32 addresses) is generated on purpose and let through the resource bound a few times per process.",
        "assumptions": ["resource bounds of the sandbox, not of the property: prefix pools and ranges <= 2^20 blocks, sleep <= 5 ms, <= 5 autorefresh watchers and a bounded number of sqlite handles per process (skipped cases are counted)",
                        "argument tokens never contain blanks: configuration arguments are whitespace-separated fields"],
    },
    "C10": {
        "engine": "static",
        "tests": [
            {"name": "TestC10Static", "quick": {"checks": 5000, "shards": 3}, "thorough": {"checks": 150000, "shards": 14}},
            {"name": "TestC10Refresh", "quick": {"checks": 16, "shards": 1}, "thorough": {"checks": 30, "shards": 2}, "env": {"VERIF_MAX_WATCHERS": 35}},
            {"name": "TestC10Dual", "quick": {"checks": 2000, "shards": 1}, "thorough": {"checks": 60000, "shards": 2}},
        ],
        "rule": "three generators. Static: a lease file from a grammar (entries with MACs of 6/8/20 bytes in colon/upper/hyphen/dotted spellings from a small pool so duplicates occur, IPv4 dotted or v4-mapped / IPv6 compressed, expanded or upper-case, separators of blanks and tabs, trailing blanks, comments, empty lines, with or without final newline, optionally exactly one malformed line: one field, three fields, bad MAC, bad address, wrong family; one file in ten has one line lengthened to 4 KiB..140 KB, on both sides of 64 KiB), set up through Plugin.Setup4/Setup6; the harness's own parser of the rendered text says 'rejected' or gives the mapping; every listed MAC is probed (DHCPv4 chaddr; DHCPv6 via DUID-LL/LLT, via the relay's client link-layer address option, via an EUI-64 peer address; with and without IA_NA) and near-miss / truncated / fixed unlisted MACs must be passed untouched. Refresh: an autorefresh instance and 2..6 rewrites (in place by one pwrite of equal length, or one O_APPEND write), good or malformed: a good rewrite must become visible within 15 s without any further file event, every lookup during the switch serves the old or the new value with a single switch point, a malformed rewrite leaves the previous mapping (polled 100 ms); one good rewrite in six is preceded, with nothing in between, by a rewrite to a large file (2000..20000 generated entries): the stages old -> large -> last never go backwards and after the last content is in force an older one must not come back (polled 150 ms). Dual: both protocols configured in either order, each handler must serve its own file. Non-trivial: static file with >= 2 entries and a duplicate MAC or non-canonical spelling, or a rejected file with >= 3 lines; refresh sequence with a malformed rewrite after a good one; dual case with both files non-empty. Distinct: FNV-64 of the case JSON.",
        "assumptions": ["no whitespace-only lines, indented comments or CR line endings; files are never replaced by rename (the property does not define these)",
                        "net.ParseMAC / net.ParseIP define the accepted spellings, as the property says", "inotify instances are never released by the plugin: at most 35 autorefresh instances per process; a failing watcher creation is counted as skipped"],
    },
    "C18": {
        "engine": "conf",
        "tests": [
            {"name": "TestC18", "quick": {"checks": 10000, "shards": 3}, "thorough": {"checks": 80000, "shards": 12}},
            {"name": "TestC18Mutated", "quick": {"checks": 8000, "shards": 1}, "thorough": {"checks": 80000, "shards": 4}},
        ],
        "fuzz": [{"name": "FuzzConfigLoad", "seconds": 120}],
        "rule": "TestC18: rapid draws a structured configuration (server4/server6 present or not; listen absent / scalar / list of 1..4 items / `interface` alias / both; items built from [address][%zone][:port] with bracketed IPv6 and optionally bracketed IPv4, v4-mapped, wrong family, garbage address, empty/garbage port, multicast with and without zone; plugins as a list of 1..5 one-key maps with 0..4 arguments from a vocabulary of IPs, CIDRs, durations, paths, URLs, MAC-bearing values, or missing / null / empty / scalar / map, or an item with two keys) and renders it to YAML in block or flow style with varying quoting, indentation, key order, comments and separators; config.Load's result is compared with the structure (plugin names, strings.Fields arguments, addresses with wildcard/default port/zone, multicast expansion from the harness's own scan of net.Interfaces). TestC18Mutated: 1..4 byte mutations (truncate, bit flip, insert, delete, duplicate line) of a valid rendering must make Load return, never panic. Thorough adds native fuzzing of arbitrary text. Non-trivial: accepted configuration with >= 2 plugins or >= 1 explicit listen item, or a configuration rejected for a listed reason; mutated text that differs from the original. Distinct: FNV-64 of the case JSON. One section in 25 is a scalar or a list instead of a mapping (no plugins list: must be rejected).",
        "assumptions": ["plugin names are lower-case identifiers (viper folds key case); argument tokens are strings or canonical decimal integers for YAML (no floats, booleans, dates, ~)",
                        "not asserted: port ranges (99999, -5 are accepted by the code), empty listen lists/values, null protocol sections, unbracketed IPv6 literals",
                        "a listen item with more than one '%' is taken as zone = what follows the last '%' (as the code documents), so what precedes it is not an address and the item must be rejected",
                        "multicast expansion is compared with the interfaces this sandbox has at run time"],
    },
    "C01": {
        "engine": "srv",
        "tests": [{"name": "TestC01", "quick": {"checks": 3000, "shards": 4}, "thorough": {"checks": 25000, "shards": 16}},
                  {"name": "TestC01Burst", "quick": {"checks": 500, "shards": 4}, "thorough": {"checks": 6000, "shards": 16}, "shrinktime": "10s"}],
        "fuzz": [{"name": "FuzzHandle4", "seconds": 150}, {"name": "FuzzHandle6", "seconds": 150}],
        "rule": "rapid draws a protocol, a chain of validly configured built-in plugins (any subset in example-configuration order, or any permutation prefix; several argument variants; stateful range/prefix/file included; fresh instances per case), a bound or unbound listener, and a history of 1..12 [thorough ..24] datagrams from small pools of clients: structured DHCPv4 packets (any opcode, hlen 0..255, message type any/absent/duplicated/bad length, options 50/54/55/61/82/12/116/generic, pad, missing END, bad cookie, shuffled options) or DHCPv6 messages (any type, 0..3 IA_PD with hints of wire length 0 / length-only / pool blocks / out of pool / length > 128, IA_NA, ORO, server id own/other, rapid commit, relay depth 0..4 with interface-id/remote-id/client link-layer address, missing relay message, outer Relay-Reply), 30% byte-mutated (truncate, bit flip, overwrite, splice with the previous datagram, append, length bytes) and 10% retransmitted. Each datagram is fed through the capture listener under recover and a watchdog; oracle: no panic, returns within 20 s (a goroutine parked on a lock or channel is a wedge), at most one reply, every reply parses, and a well-formed canary request after the history still reaches the plugin chain. Non-trivial: at least one datagram of the history reached the plugin chain. Distinct: FNV-64 of the case JSON. Thorough adds coverage-guided native fuzzing of whole histories (FuzzHandle4/6). TestC01Burst: the same histories under chains that usually contain a lease plugin, followed by 2..6 copies of all their datagrams handled at once, one goroutine each as Serve does (copies come from other clients where the datagram says who the client is); same oracle, and the Go runtime's fatal checks (concurrent map access, unlock of unlocked mutex) count as a crash; in half of these cases a file plugin of the chain watches its lease file, which is rewritten in place every 100 us while the burst is repeated in waves for 40 ms; log.Fatal in the code under test is a panic for the harness; not a race build.",
        "assumptions": ["an unbound listener always receives interface information (listen4/listen6 enable it on unbound sockets), so (unbound, no control message) is never generated",
                        "replies are observed at the capture hook: the WriteTo call of the listener and the serialised Ethernet frame of sendEthernet; the sockets themselves are not exercised",
                        "the layer-2 path needs an interface with a 6-byte hardware address; it is looked up at run time"],
    },
    "C11": {
        "engine": "srv",
        "tests": [{"name": "TestC11", "quick": {"checks": 30000, "shards": 3, "timeout": 1200}, "thorough": {"checks": 300000, "shards": 12}, "count_free": True, "env": {"VERIF_ENUM": 1}},
                  {"name": "TestC11Hist", "quick": {"checks": 2500, "shards": 3}, "thorough": {"checks": 25000, "shards": 8}},
                  {"name": "TestC11Serve", "quick": {"checks": 150, "shards": 1, "timeout": 600}, "thorough": {"checks": 3000, "shards": 4, "timeout": 3000}, "shrinktime": "5s"}],
        "fuzz": [{"name": "FuzzReply4", "seconds": 60}],
        "rule": "every run enumerates all 256 opcodes x 257 message-type values (incl. absent) on a fixed relayed body, then rapid draws structured DHCPv4 datagrams (see C01; 20% byte-mutated) under a chain that is empty, synthetic (pass / NAK-maker / dropper) or a random stateless built-in chain, bound or unbound. Oracle: the harness classifies the datagram (library parse = definition of unparseable; opcode; message type); anything but a parseable BOOTREQUEST of type DISCOVER/REQUEST must produce no output; an output (UDP payload, or the DHCP payload decoded from the layer-2 frame) must be a BOOTREPLY with the request's xid, htype, chaddr, flags, giaddr, byte-equal options 82 and 61, OFFER for DISCOVER and ACK/NAK for REQUEST; with a chain that cannot drop exactly one output exists (UDP paths). TestC11Hist applies the same oracle to every datagram of C01-style histories under chains of built-in plugins that include the stateful ones (small ranges, static leases), so that what plugins do on rare paths (exhaustion) is covered. Non-trivial: parseable datagram (TestC11); at least one datagram of the history answered (TestC11Hist). Distinct: FNV-64 of the case JSON. TestC11Serve: the real Serve loop on a 127.0.0.1 socket; after 0..3 datagrams too short to parse, 2..8 client sockets send 2..12 relayed DISCOVERs each back to back; every recorded reply must carry the transaction id and hardware address of exactly one request and a request sent once is answered once; non-trivial: two or more replies.",
        "assumptions": ["an unbound listener always receives interface information (listen4/listen6 enable it on unbound sockets), so (unbound, no control message) is never generated",
                        "replies are observed at the capture hook: the WriteTo call of the listener and the serialised Ethernet frame of sendEthernet; the sockets themselves are not exercised",
                        "the layer-2 path needs an interface with a 6-byte hardware address; it is looked up at run time"],
    },
    "C12": {
        "engine": "srv",
        "tests": [{"name": "TestC12", "quick": {"checks": 30000, "shards": 3}, "thorough": {"checks": 300000, "shards": 12}, "count_free": True},
                  {"name": "TestC12Hist", "quick": {"checks": 2500, "shards": 3}, "thorough": {"checks": 25000, "shards": 8}},
                  {"name": "TestC12Serve", "quick": {"checks": 150, "shards": 1, "timeout": 600}, "thorough": {"checks": 3000, "shards": 4, "timeout": 3000}, "shrinktime": "5s"}],
        "fuzz": [{"name": "FuzzReply6", "seconds": 60}],
        "rule": "every run enumerates message type 0..255 x client-id present/absent x rapid-commit present/absent x relay depth 0..2, then rapid draws structured DHCPv6 datagrams (see C01; 17% byte-mutated) x source address (link-local, global, loopback, ULA) x source port x bound/unbound listener x receiving interface index, with an empty chain. Oracle: output exists iff the innermost message can be extracted, has a supported type and a client id and the outermost layer (if any) is a Relay-Forward; the answer is ADVERTISE for SOLICIT, REPLY carrying Rapid Commit for SOLICIT with it, REPLY otherwise, same transaction id, byte-equal client id; relayed: exactly n Relay-Reply layers (read with the harness's own walker) mirroring link-address, peer-address and Interface-ID per layer; destination = source address and port; link-local source => control message pinned to the bound, else the receiving interface. TestC12Hist applies the same oracle to every datagram of C01-style histories under chains of built-in DHCPv6 plugins (small prefix pools, static leases). Non-trivial: a reply was produced or the datagram was relayed (TestC12); at least one datagram of the history answered (TestC12Hist). TestC12Serve: the real Serve loop on a [::1] socket, 2..8 client sockets each sending 2..12 SOLICITs back to back; every recorded reply must be addressed to the socket its own request (same transaction id) came from; non-trivial: two or more replies. Distinct: FNV-64 of the case JSON.",
        "assumptions": ["an unbound listener always receives interface information (listen4/listen6 enable it on unbound sockets), so (unbound, no control message) is never generated",
                        "replies are observed at the capture hook: the WriteTo call of the listener and the serialised Ethernet frame of sendEthernet; the sockets themselves are not exercised",
                        "the layer-2 path needs an interface with a 6-byte hardware address; it is looked up at run time"] + ["inner relay layers are generated as Relay-Forward; only the outermost may be a Relay-Reply", "absence of pinning for global sources is not asserted"],
    },
    "C13": {
        "engine": "srv",
        "tests": [
            {"name": "TestC13", "quick": {"checks": 10000, "shards": 3}, "thorough": {"checks": 250000, "shards": 12}},
            {"name": "TestC13Start", "quick": {"checks": 120, "shards": 1}, "thorough": {"checks": 1500, "shards": 1}, "shrinktime": "10s"},
            {"name": "TestC13Builtin", "quick": {"checks": 2000, "shards": 3}, "thorough": {"checks": 25000, "shards": 8}},
        ],
        "rule": "TestC13: synthetic plugins registered once through plugins.RegisterPlugin (three dual, two DHCPv4-only, two DHCPv6-only) whose behaviour is chosen by their argument (pass, modify, replace the response object, stop with response, stop with nil, setup error, nil handler); rapid draws configurations of 0..5 entries per protocol in any mix plus unknown names, built as config.Config values or (one third) written as a YAML file and read back with config.Load as main() does; plugins.LoadPlugins and one request per protocol through the capture listener are compared with an interpreter of the statement (error iff unknown name / failing setup for a configured protocol; handlers = listed plugins supporting the protocol, in order; invocation log in order, each at most once, each seeing the markers its predecessor returned and the original transaction id; stops after the first stop; the sent reply carries the markers of the response returned last; nil => nothing sent). TestC13Start: the real server.Start path (LoadPlugins, 1..3 listen addresses per protocol on loopback, Serve loops, real sockets) with the same synthetic plugins; one relayed DISCOVER (answer read on 127.0.0.1:67) / one SOLICIT is sent to every listener and each must run the same chain with the same result. TestC13Builtin: C01's chains and histories with every built-in handler wrapped: a nil response without stop is a violation. Non-trivial: chain of >= 2 handlers with a stop before the end or a replace (TestC13); a datagram reached the chain (TestC13Builtin). Distinct: FNV-64 of the case JSON.",
        "assumptions": ["in the YAML path plugin names are plain lower-case identifiers (the loader folds key case) and an empty plugins list is rejected by config.Load itself (C18)"],
    },
    "C15": {
        "engine": "srv",
        "tests": [{"name": "TestC15", "quick": {"checks": 20000, "shards": 2}, "thorough": {"checks": 500000, "shards": 10}, "count_free": True},
                  {"name": "TestC15Seq", "quick": {"checks": 8000, "shards": 2}, "thorough": {"checks": 200000, "shards": 8}}],
        "rule": "every run enumerates the whole table giaddr x ciaddr in {0, 192.0.2.7, 10.10.10.200, 169.254.7.9, 255.255.255.255} x broadcast flag x DISCOVER/REQUEST x synthetic plugin action {offer an address, leave yiaddr unset, turn the reply into a NAK} x listener {bound to the interface with a 6-byte hardware address, unbound with the request arriving on it, unbound with a non-existent receiving index} (900 rows), then rapid draws the same dimensions with random addresses, yiaddr and chaddr (one in four with a hardware address of 0, 1, 5, 7, 8, 15 or 16 bytes: on the link-level row nothing needs to be sent then, but a frame to any other MAC is a violation; one in ten with a listener opened by the server's own listen4 for the wildcard address, an address of this host, 127.0.0.1 or 255.255.255.255, with a zone (must behave as bound) or without (unbound: pinned replies leave on the arrival interface, and the socket must report it)); TestC15Seq draws sequences of 2..5 rows (biased to the link-level row) arriving on / bound to different interfaces with a 6-byte hardware address and handled by the same process, so state left by one datagram cannot leak into the next. Oracle: the statement's cascade written independently (giaddr:67, NAK broadcast, ciaddr:68, flag broadcast, else one layer-2 frame with Ethernet dst = chaddr, IPv4 dst = yiaddr, UDP 67->68, DHCP payload = the reply, on the right interface); broadcast/link-local/L2 pinned to the bound or receiving interface, routable destinations not pinned. Every row is non-trivial; distinct: FNV-64 of the case JSON.",
        "assumptions": ["an unbound listener always receives interface information (listen4/listen6 enable it on unbound sockets), so (unbound, no control message) is never generated",
                        "replies are observed at the capture hook: the WriteTo call of the listener and the serialised Ethernet frame of sendEthernet; the sockets themselves are not exercised",
                        "the layer-2 path needs an interface with a 6-byte hardware address; it is looked up at run time"] + ["layer-2 rows use hlen 6; for other lengths the Ethernet serialiser refuses and nothing is sent, which is recorded but not asserted"],
    },
    "C16": {
        "engine": "srv",
        "tests": [{"name": "TestC16", "race": True, "quick": {"checks": 30, "shards": 3, "timeout": 1500}, "thorough": {"checks": 600, "shards": 14, "timeout": 3000}, "env": {"VERIF_MAX_WATCHERS": 6}, "shrinktime": "5s"},
                  {"name": "TestC16Serve", "race": True, "quick": {"checks": 100, "shards": 1, "timeout": 1500}, "thorough": {"checks": 3000, "shards": 4, "timeout": 3000}, "shrinktime": "5s"}],
        "rule": "rapid draws a scenario: DHCPv4 chain (server_id, file, range, dns, router, netmask, lease_time), DHCPv6 chain (server_id, file, prefix, dns) or both at once; 1..3 static and 2..8 dynamic clients, a range/pool up to two smaller than the dynamic client set, 8..32 [thorough ..64] goroutines each sending 3..12 datagrams (same-client storms), optionally the file plugin with autorefresh while a writer goroutine rewrites the lease files in place; every datagram goes through Capture.Feed (buffer from the pool, parse, recycle, chain) on a -race build. Refresh scenarios end with two rewrites of the DHCPv4 lease file back to back (12000 entries, then the final content, which adds a client): the final content must come into force within 15 s and stay (150 ms). TestC16Serve runs the real Serve loops (ReadFrom into a pooled buffer, reslice, one goroutine per datagram) on loopback UDP sockets: 2..8 client sockets send bursts of 2..12 datagrams of varying length, outputs are captured at WriteTo; every recorded reply must belong to exactly one request (xid <-> chaddr / client id; DHCPv6: addressed to the socket that request came from) and a datagram still unanswered after the burst must be answered when sent again alone. Oracles: (1) the Go race detector (any report is a violation); (2) cross-talk: the reply returned for request xid X must carry X and X's chaddr/client id; (3) invariants every serial order satisfies: one address per dynamic client, one client per address, in range, refusal implies the range is full at the end, static clients get the old or the new mapping, one prefix per client for hint-less requests, no prefix delegated to two clients. Non-trivial: at least two datagrams were in flight at once (measured). Distinct: FNV-64 of the case JSON.",
        "assumptions": ["interleavings are sampled by the Go scheduler (GOMAXPROCS = cores, yields injected in front of the chain); the race detector flags unsynchronised access pairs even when the bad interleaving did not occur",
                        "requests are relayed (giaddr set) so replies take the UDP path", "at most 6 autorefresh watchers per process (up to 14 processes; the per-user inotify limit is 128) (inotify instances are never released by the plugin)"],
    },
}
